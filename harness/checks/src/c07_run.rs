// C07 part 2 (included by bin/c07.rs): history interpreter, reference model, judge, F3 matcher.

thread_local! {
    static GUARDS: RefCell<Vec<(u64, EnteredSpan)>> = const { RefCell::new(Vec::new()) };
    static DEFAULT: RefCell<Option<DefaultGuard>> = const { RefCell::new(None) };
}
static PANIC_LOC: Mutex<String> = Mutex::new(String::new());

fn install_hook() {
    std::panic::set_hook(Box::new(|info| {
        let on_worker = std::thread::current().name().map(|n| n.starts_with('w')).unwrap_or(false);
        if on_worker {
            let loc = info.location().map(|l| format!("{}:{}", l.file(), l.line())).unwrap_or_default();
            if let Ok(mut g) = PANIC_LOC.lock() {
                *g = loc;
            }
        } else {
            eprintln!("{info}");
        }
    }));
}

struct Stop;

struct StackRt {
    disp: Dispatch,
    log: Arc<Log>,
    info: StackInfo,
    code: String,
    sig: String,
}
struct MSpan {
    stack: usize,
    id: u64,
    parent: Option<u64>,
    meta: Meta,
    /// per filter instance: accepted by it and by every filter around it
    acc: Vec<bool>,
    /// per leaf: close notifications seen
    closed: Vec<u32>,
}
struct H {
    span: Span,
    serial: Option<u64>,
    stack: usize,
}
/// A per-layer filter verdict `reject` that a dispatcher interaction left behind on a thread
/// (observed at the API boundary: the filter answered reject and no on_event/on_new_span stage followed).
#[derive(Clone, Debug)]
struct Stale {
    kind: &'static str,
    at: String,
    /// set by the most recent filter pass on the thread, no delivery stage since
    fresh: bool,
}
struct Verd {
    gverd: Vec<bool>,
    g_ok: bool,
    ev_ok: bool,
    fverd: Vec<bool>,
    acc: Vec<bool>,
    leaf: Vec<bool>,
}
struct Exp {
    leaf: usize,
    k: K,
    key: u64,
    aux: u64,
    cur: Option<Option<u64>>,
    scope: Option<Vec<u64>>,
    /// a second accepted answer for `scope` (explicit parent this layer was never shown)
    alt_scope: Option<Vec<u64>>,
}
#[derive(Default)]
struct Cmp {
    missing: Vec<usize>,
    problems: Vec<String>,
    delivered: usize,
}

struct Pools {
    fresh: Fresh,
    used_ev: Vec<&'static Cs>,
    used_sp: Vec<&'static Cs>,
    used_pr: Vec<&'static Cs>,
    next: u64,
    f3_witnessed: [bool; 4],
}

struct Hist<'a> {
    args: &'a Args,
    out: &'a mut Out,
    pools: &'a mut Pools,
    rng: Rng,
    hidx: u64,
    workers: Workers,
    stacks: Vec<StackRt>,
    tmap: [usize; 2],
    tstack: [Vec<u64>; 2],
    spans: HashMap<u64, MSpan>,
    handles: Vec<Option<H>>,
    guards: [Vec<(u64, Option<u64>)>; 2],
    leak: [BTreeMap<usize, Stale>; 2],
    trace: Vec<String>,
    licence_class: bool,
    aborted: bool,
    tracer: Arc<LogTracer>,
    judged: HashMap<(String, usize, Vec<u64>), u32>,
}

fn log_level(rank: usize) -> log::Level {
    [log::Level::Error, log::Level::Error, log::Level::Warn, log::Level::Info, log::Level::Debug, log::Level::Trace][rank]
}

impl<'a> Hist<'a> {
    fn next(&mut self) -> u64 {
        self.pools.next += 1;
        self.pools.next
    }
    fn count(&mut self, k: &str) {
        self.out.count(k, 1);
    }
    fn leaf_filter(&self, s: usize, i: usize) -> Option<usize> {
        self.stacks[s].info.leaves[i].last().copied()
    }
    fn vis(&self, serial: u64, f: Option<usize>) -> bool {
        match f {
            None => true,
            Some(f) => self.spans[&serial].acc[f],
        }
    }
    fn cur_for(&self, t: usize, f: Option<usize>) -> Option<u64> {
        self.tstack[t].iter().rev().copied().find(|s| self.vis(*s, f))
    }
    fn chain_from(&self, start: Option<u64>, f: Option<usize>) -> Vec<u64> {
        let mut out = vec![];
        let mut c = start;
        while let Some(x) = c {
            if self.vis(x, f) {
                out.push(x);
            }
            c = self.spans[&x].parent;
        }
        out
    }
    fn ctx_chain(&self, t: usize, f: Option<usize>) -> Vec<u64> {
        self.chain_from(self.cur_for(t, f), f)
    }
    fn metas(&self, v: &[u64]) -> Vec<Meta> {
        v.iter().map(|s| self.spans[s].meta).collect()
    }
    fn ids(&self, v: &[u64]) -> Vec<u64> {
        v.iter().map(|s| self.spans[s].id).collect()
    }
    fn serial_of_id(&self, s: usize, id: u64) -> String {
        let mut best: Option<u64> = None;
        for (k, m) in &self.spans {
            if m.stack == s && m.id == id && best.map(|b| *k > b).unwrap_or(true) {
                best = Some(*k);
            }
        }
        match best {
            Some(k) => format!("s{k}"),
            None => format!("id{id:#x}"),
        }
    }

    /// Reference verdicts for metadata `m` emitted on thread `t` (stack `s`).
    fn verdicts(&self, s: usize, t: usize, m: Meta, is_event: bool) -> Verd {
        let info = &self.stacks[s].info;
        let gchain = self.metas(&self.ctx_chain(t, None));
        let gverd: Vec<bool> = info.globals.iter().map(|p| p.eval(m, &gchain)).collect();
        let g_ok = gverd.iter().all(|x| *x);
        let ev_ok = !is_event || info.evveto.iter().all(|mask| mask_accept(*mask, m));
        let mut fverd = vec![];
        let mut acc: Vec<bool> = vec![];
        for (fi, f) in info.filters.iter().enumerate() {
            let chain = self.metas(&self.ctx_chain(t, Some(fi)));
            let v = f.pred.eval(m, &chain);
            fverd.push(v);
            acc.push(v && f.parent.map(|p| acc[p]).unwrap_or(true));
        }
        let leaf = info.leaves.iter().map(|c| g_ok && ev_ok && c.last().map(|f| acc[*f]).unwrap_or(true)).collect();
        Verd { gverd, g_ok, ev_ok, fverd, acc, leaf }
    }

    fn witness(&self, detail: Value) -> Value {
        let n = self.trace.len();
        json!({
            "stacks": self.stacks.iter().map(|s| s.code.clone()).collect::<Vec<_>>(),
            "thread_to_stack": self.tmap,
            "history_index": self.hidx, "shard": self.args.shard,
            "class": if self.licence_class { "probe/event_enabled-veto class (F3 reachable)" } else { "plain class (F3 unreachable)" },
            "ops": self.trace[n.saturating_sub(70)..].to_vec(),
            "detail": detail,
            "replay_hint": "re-run the child args (the whole shard is deterministic)",
        })
    }
    fn violation(&mut self, what: &str, detail: Value) -> Stop {
        let w = self.witness(detail);
        self.out.violation(what, w);
        Stop
    }

    fn drain(&mut self, s: usize) -> Result<(Vec<LEv>, Vec<FEv>), Stop> {
        let lev = std::mem::take(&mut *self.stacks[s].log.lev.lock().unwrap());
        let fev = std::mem::take(&mut *self.stacks[s].log.fev.lock().unwrap());
        let errs = std::mem::take(&mut *self.stacks[s].log.errs.lock().unwrap());
        for o in 0..self.stacks.len() {
            if o != s {
                let n = self.stacks[o].log.lev.lock().unwrap().len() + self.stacks[o].log.fev.lock().unwrap().len();
                if n > 0 {
                    return Err(self.violation("an operation under one stack produced callbacks in the other, independent stack", json!({"other_stack": o})));
                }
            }
        }
        if !errs.is_empty() {
            return Err(self.violation("a layer was handed or shown a span its filter rejected (or that it was never shown)", json!({"layer_reports": errs})));
        }
        Ok((lev, fev))
    }

    fn compare(&mut self, s: usize, exp: &[Exp], lev: &[LEv]) -> Cmp {
        let mut c = Cmp::default();
        let nleaf = self.stacks[s].info.leaves.len();
        // closes
        let mut closed_now: Vec<u64> = vec![];
        for e in lev.iter().filter(|e| e.k == K::Close) {
            self.out.count("close_notifications", 1);
            let f = self.leaf_filter(s, e.layer);
            match self.spans.get(&e.key) {
                None => c.problems.push(format!("rec#{} got on_close for unknown span serial {}", e.layer, e.key)),
                Some(m) if m.stack != s => c.problems.push(format!("rec#{} got on_close for span s{} of the other stack", e.layer, e.key)),
                Some(_) => {
                    if !self.vis(e.key, f) {
                        c.problems.push(format!("rec#{} got on_close for span s{} although its filters rejected that span", e.layer, e.key));
                    }
                    let m = self.spans.get_mut(&e.key).unwrap();
                    m.closed[e.layer] += 1;
                    if m.closed[e.layer] > 1 {
                        c.problems.push(format!("rec#{} got on_close for span s{} twice", e.layer, e.key));
                    }
                    if !closed_now.contains(&e.key) {
                        closed_now.push(e.key);
                    }
                }
            }
        }
        for k in closed_now {
            for i in 0..nleaf {
                let f = self.leaf_filter(s, i);
                if self.vis(k, f) && self.spans[&k].closed[i] == 0 {
                    c.problems.push(format!("span s{k} closed in this operation (other layers were told) but rec#{i}, whose filters accepted it, got no on_close"));
                }
            }
        }
        // everything else: at most one entry per leaf per operation
        for i in 0..nleaf {
            let got: Vec<&LEv> = lev.iter().filter(|e| e.layer == i && e.k != K::Close).collect();
            let want = exp.iter().find(|x| x.leaf == i);
            match (want, got.as_slice()) {
                (None, []) => {}
                (None, g) => {
                    for e in g {
                        c.problems.push(format!("EXTRA: rec#{i} got {:?}({}) although the reference evaluator says its filters / a global filter reject it", e.k, e.key));
                    }
                }
                (Some(_), []) => c.missing.push(i),
                (Some(w), g) => {
                    if g.len() > 1 {
                        c.problems.push(format!("rec#{i} got {} notifications in one operation: {:?}", g.len(), g.iter().map(|e| (e.k, e.key)).collect::<Vec<_>>()));
                    }
                    let e = g[0];
                    c.delivered += 1;
                    if e.k != w.k || e.key != w.key || e.aux != w.aux {
                        c.problems.push(format!("rec#{i} got {:?}(key {}, value {}) where {:?}(key {}, value {}) was expected", e.k, e.key, e.aux, w.k, w.key, w.aux));
                        continue;
                    }
                    if !e.foreign.is_empty() {
                        let names: Vec<String> = e.foreign.iter().map(|id| self.serial_of_id(s, *id)).collect();
                        c.problems.push(format!("LOOKUP: inside {:?}({}) rec#{i}'s lookup_current()/scope shows span(s) {:?} that this layer was never shown (its filter rejected them)", e.k, e.key, names));
                    }
                    if let Some(wc) = &w.cur {
                        self.out.count("lookups_judged", 1);
                        if e.cur != *wc {
                            c.problems.push(format!(
                                "LOOKUP: inside {:?}({}) rec#{i}'s ctx.lookup_current() is {:?}, the nearest entered span its filters accepted is {:?}",
                                e.k, e.key, e.cur.map(|id| self.serial_of_id(s, id)), wc.map(|id| self.serial_of_id(s, id))
                            ));
                        }
                    }
                    if let Some(ws) = &w.scope {
                        self.out.count("lookups_judged", 1);
                        if e.scope != *ws && w.alt_scope.as_ref() != Some(&e.scope) {
                            c.problems.push(format!(
                                "LOOKUP: inside {:?}({}) rec#{i}'s scope is {:?}, the chain of ancestors its filters accepted is {:?}",
                                e.k, e.key, e.scope.iter().map(|id| self.serial_of_id(s, *id)).collect::<Vec<_>>(), ws.iter().map(|id| self.serial_of_id(s, *id)).collect::<Vec<_>>()
                            ));
                        }
                    }
                }
            }
        }
        c
    }

    fn check_verdicts(&mut self, s: usize, v: &Verd, fev: &[FEv], problems: &mut Vec<String>) {
        for e in fev {
            if e.global {
                self.out.count("global_filter_verdicts_checked", 1);
                if e.verdict != v.gverd[e.filter] {
                    problems.push(format!(
                        "FILTER-VIEW: global filter g{} ({}) answered {} where the reference evaluator says {}",
                        e.filter, self.stacks[s].info.globals[e.filter].code(), e.verdict, v.gverd[e.filter]
                    ));
                }
                continue;
            }
            if e.event_enabled {
                if !e.verdict {
                    problems.push(format!("HARNESS-NOTE: filter f{} answered false in event_enabled", e.filter));
                }
                continue;
            }
            self.out.count("filter_verdicts_checked", 1);
            if self.stacks[s].info.filters[e.filter].pred.context_dependent() {
                self.out.count("context_dependent_filter_verdicts_checked", 1);
            }
            if e.verdict != v.fverd[e.filter] {
                problems.push(format!(
                    "FILTER-VIEW: filter f{} ({}) answered {} where the reference evaluator over the spans visible to that filter says {}",
                    e.filter, self.stacks[s].info.filters[e.filter].pred.code(), e.verdict, v.fverd[e.filter]
                ));
            }
        }
    }

    /// Book-keeping of one observed `enabled` pass on thread `t`: every per-layer filter that
    /// answered gets its verdict noted; a global filter answering reject discards everything
    /// (the pass was cut short by a global veto).  Returns whether a global filter rejected.
    fn apply_pass(&mut self, t: usize, fev: &[FEv], kind: &'static str) -> bool {
        for st in self.leak[t].values_mut() {
            st.fresh = false;
        }
        if fev.iter().any(|e| e.global && !e.event_enabled && !e.verdict) {
            self.leak[t].clear();
            return true;
        }
        let mut last: BTreeMap<usize, bool> = BTreeMap::new();
        for e in fev.iter().filter(|e| !e.event_enabled && !e.global) {
            last.insert(e.filter, e.verdict);
        }
        let at = self.trace.last().cloned().unwrap_or_default();
        for (f, v) in last {
            if v {
                self.leak[t].remove(&f);
            } else {
                self.leak[t].insert(f, Stale { kind, at: at.clone(), fresh: true });
            }
        }
        false
    }
    /// The on_event / on_new_span stage ran: every noted reject is consumed by its Filtered,
    /// except those nested inside a Filtered that itself skipped.
    fn consume(&mut self, s: usize, t: usize) {
        let info = &self.stacks[s].info;
        let old = std::mem::take(&mut self.leak[t]);
        for (f, mut st) in old.clone() {
            let mut a = info.filters[f].parent;
            let mut shadowed = false;
            while let Some(x) = a {
                if old.contains_key(&x) {
                    shadowed = true;
                }
                a = info.filters[x].parent;
            }
            if shadowed {
                st.fresh = false;
                self.leak[t].insert(f, st);
            }
        }
        if !self.leak[t].is_empty() {
            self.out.count("rejects_surviving_a_delivery_stage_nested_filtered", 1);
        }
    }

    fn on_panic(&mut self, t: usize, msg: String) -> Result<(), Stop> {
        let loc = PANIC_LOC.lock().map(|g| g.clone()).unwrap_or_default();
        self.aborted = true;
        if !self.leak[t].is_empty() {
            if loc.contains("subscriber_filters/mod.rs") && cfg!(debug_assertions) {
                self.out.count("f3_debug_assertion_panics", 1);
                let w = self.witness(json!({"panic": msg, "location": loc, "pending_rejects": leak_json(&self.leak[t])}));
                self.out.finding(
                    "F3",
                    "enabled!/log_enabled! probes and events vetoed by a global layer's event_enabled leave per-layer filter bits set; the next always-interest emission on the thread is missed by the layer whose filter rejected (debug-assertion build: FilterState assertion instead)",
                    w,
                );
                return Ok(());
            }
        }
        Err(self.violation("panic inside the collector stack during a history", json!({"panic": msg, "location": loc, "thread": t})))
    }

    /// Judge an emission (new span / event) after it ran.
    #[allow(clippy::too_many_arguments)]
    fn settle_emission(&mut self, s: usize, t: usize, v: &Verd, mut cmp: Cmp, fev: &[FEv], lev_n: usize, new_span: Option<u64>, is_event: bool, cs_key: String, m: Meta, maxlvl: usize) -> Result<(), Stop> {
        let mut problems = std::mem::take(&mut cmp.problems);
        self.check_verdicts(s, v, fev, &mut problems);
        let enabled_calls = fev.iter().any(|e| !e.event_enabled);
        let nleaf = v.leaf.len();
        let nacc = v.leaf.iter().filter(|x| **x).count();
        self.out.evals += 1;
        self.out.count("emissions_judged", 1);
        self.out.count("leaf_deliveries_expected", nacc as u64);
        self.out.count("leaf_rejections_expected", (nleaf - nacc) as u64);
        if !v.g_ok {
            self.count("emissions_rejected_by_a_global_filter");
        } else if !v.ev_ok {
            self.count("events_vetoed_by_a_global_event_enabled");
        }
        let has_filters = !self.stacks[s].info.filters.is_empty();
        if has_filters && !enabled_calls && (lev_n > 0 || nacc > 0) {
            self.count("emissions_on_the_cached_always_path");
        }
        if enabled_calls {
            self.count("emissions_with_an_enabled_pass");
        }
        let key = (cs_key, s, self.tstack[t].clone());
        let n = self.judged.entry(key).or_insert(0);
        *n += 1;
        if *n > 1 {
            self.out.count("same_emission_same_context_judged_again_after_a_longer_prefix", 1);
        }
        if nacc > 0 && nacc < nleaf {
            self.count("emissions_where_layers_of_one_stack_disagree");
            let bits: String = v.leaf.iter().map(|b| if *b { '1' } else { '0' }).collect();
            let sig = format!("{}|{}|{}|{}|{}|d{}", self.stacks[s].sig, if is_event { "ev" } else { "sp" }, bits, enabled_calls, self.stacks.len(), self.tstack[t].len().min(3));
            self.out.distinct_str(&sig);
        }
        if !problems.is_empty() {
            let what = if problems.iter().any(|p| p.starts_with("EXTRA")) {
                "a layer received a span/event that one of its own filters or a global filter rejects"
            } else if problems.iter().any(|p| p.starts_with("LOOKUP")) {
                "lookup_current()/scope inside a callback does not show exactly the spans that layer's filters accepted"
            } else if problems.iter().any(|p| p.starts_with("FILTER-VIEW")) {
                "a per-layer filter was evaluated over a context other than the spans its own layer's filters accepted"
            } else {
                "per-layer callback log differs from the reference evaluator"
            };
            return Err(self.violation(what, json!({"problems": problems, "expected_receivers": v.leaf, "global_filters_accept": v.g_ok, "event_enabled_accepts": v.ev_ok, "filter_verdicts_reference": v.fverd})));
        }
        if !cmp.missing.is_empty() && lev_n == 0 && !enabled_calls && m.level > maxlvl && cmp.missing == recv(&v.leaf) {
            // dropped before dispatch by the global max-level summary (LevelFilter::current())
            let any_none = self.stacks.iter().any(|x| x.info.has_none_layer);
            let any_and_then = self.stacks.iter().any(|x| x.info.has_and_then);
            let w = self.witness(json!({"emission_level": vcs::LEVEL_NAMES[m.level], "LevelFilter::current": vcs::LEVEL_NAMES[maxlvl], "expected_receivers": v.leaf}));
            if any_none {
                self.count("f26_dropped_by_max_level_hint_next_to_a_none_layer");
                if !tolerated("F26") {
                    self.out.finding(
                        "F26",
                        "an Option::None layer is not transparent for the max-level summary: combined with a per-layer-filtered layer (and_then) it hides the per-layer-filter marker so that filter's hint caps the whole stack, and inside a Vec it makes the Vec count as a None layer (hint OFF); emissions other layers accept are dropped before dispatch",
                        w,
                    );
                }
                return Ok(());
            } else if any_and_then {
                self.count("f24_dropped_by_max_level_hint_of_an_and_then_tree");
                if !tolerated("F24") {
                    self.out.finding(
                        "F24",
                        "a.and_then(b) over a Registry answers b's max_level_hint alone (Layered::new derives inner_is_registry from the collector type): emissions an unfiltered / more permissive layer of the tree accepts are dropped before dispatch",
                        w,
                    );
                }
                return Ok(());
            }
        }
        // note what this emission's own `enabled` pass (if any) answered
        let global_reject = if enabled_calls { self.apply_pass(t, fev, "event_enabled_veto") } else { false };
        let stale = self.leak[t].clone();
        if !cmp.missing.is_empty() {
            let info = &self.stacks[s].info;
            let want_missing: Vec<usize> = (0..nleaf).filter(|i| v.leaf[*i] && info.leaves[*i].iter().any(|f| stale.contains_key(f))).collect();
            let explained = v.g_ok && v.ev_ok && !want_missing.is_empty() && want_missing == cmp.missing && (is_event || new_span.is_some());
            if !explained {
                return Err(self.violation(
                    "a layer misses a span/event that all of its own filters and every global filter accept",
                    json!({"missed_by_layers": cmp.missing, "expected_receivers": v.leaf, "emission_ran_an_enabled_pass": enabled_calls,
                           "rejects_left_behind_on_this_thread": leak_json(&stale), "layers_those_would_explain": want_missing, "filter_verdicts_reference": v.fverd}),
                ));
            }
            // strict F3: every missing layer has a filter whose reject stems from the interaction
            // immediately before (no delivery stage in between), and this emission ran no enabled pass
            let strict = !enabled_calls && want_missing.iter().all(|i| info.leaves[*i].iter().any(|f| stale.get(f).map(|x| x.fresh).unwrap_or(false)));
            let responsible: Vec<usize> = stale.keys().copied().filter(|f| want_missing.iter().any(|i| info.leaves[*i].contains(f))).collect();
            // F3b: an older reject can only have survived inside another Filtered
            let nested_only = responsible.iter().all(|f| stale[f].fresh || info.filters[*f].parent.is_some());
            if !strict && (enabled_calls || !nested_only) {
                return Err(self.violation(
                    "a layer misses a span/event that all of its own filters and every global filter accept (an older reject left behind on the thread does not explain it under F3 / F3b)",
                    json!({"missed_by_layers": cmp.missing, "expected_receivers": v.leaf, "emission_ran_an_enabled_pass": enabled_calls,
                           "rejects_left_behind_on_this_thread": leak_json(&stale), "filter_verdicts_reference": v.fverd}),
                ));
            }
            let kind = responsible.iter().filter_map(|f| stale.get(f)).find(|x| x.fresh || !strict).map(|x| x.kind).unwrap_or("enabled_probe");
            let w = self.witness(json!({
                "path": kind,
                "rejects_left_behind_on_this_thread": leak_json(&stale),
                "responsible_filters": responsible,
                "missed_by_layers": cmp.missing,
                "expected_receivers": v.leaf,
                "emission_ran_an_enabled_pass": enabled_calls,
            }));
            if strict {
                self.out.count(&format!("f3_matched_after_{kind}"), 1);
                self.out.count(if new_span.is_some() { "f3_missed_spans" } else { "f3_missed_events" }, 1);
                let slot = match kind {
                    "enabled_probe" => 0,
                    "log_enabled_probe" => 1,
                    _ => 2,
                };
                if !self.pools.f3_witnessed[slot] && self.args.shard < 6 {
                    self.pools.f3_witnessed[slot] = true;
                    self.out.set(&format!("f3_witness_{kind}"), serde_json::to_string(&w).unwrap());
                }
                self.out.finding(
                    "F3",
                    "enabled!/log_enabled! probes and events vetoed by a global layer's event_enabled leave per-layer filter bits set; the next always-interest emission on the thread is missed by the layer whose filter rejected",
                    w,
                );
            } else {
                self.out.count("f3b_miss_by_a_reject_that_survived_an_earlier_emission", 1);
                if !tolerated("F3b") {
                    self.out.finding(
                        "F3b",
                        "wider effect of F3 with nested Filtered: the reject an inner filter left behind in a probe / vetoed event survives later emissions whose enabled pass the outer filter cut short (inner filter not re-evaluated, its did_enable not reached) and makes the layer miss a LATER always-interest emission",
                        w,
                    );
                }
            }
        } else if !stale.is_empty() && !enabled_calls && (lev_n > 0 || nacc > 0) && (0..nleaf).any(|i| v.leaf[i] && self.stacks[s].info.leaves[i].iter().any(|f| stale.contains_key(f))) {
            self.count("reject_left_behind_but_no_miss_observed");
        }
        // a span created while rejects are pending is stored as rejected by those filters: the
        // model follows that (the recording layers under them were judged above; a filter without
        // a recording layer under it loses sight of the span all the same)
        if let (Some(serial), false) = (new_span, stale.is_empty()) {
            let info = &self.stacks[s].info;
            let parents: Vec<Option<usize>> = info.filters.iter().map(|f| f.parent).collect();
            let mut flipped: Vec<usize> = vec![];
            let ms = self.spans.get_mut(&serial).unwrap();
            for f in 0..ms.acc.len() {
                let p_ok = parents[f].map(|p| ms.acc[p]).unwrap_or(true);
                let nv = ms.acc[f] && p_ok && !stale.contains_key(&f);
                if ms.acc[f] && stale.contains_key(&f) {
                    flipped.push(f);
                }
                ms.acc[f] = nv;
            }
            if cmp.missing.is_empty() && !flipped.is_empty() {
                // no recording layer could witness it; same precondition as F3 / F3b
                let strict = !enabled_calls && flipped.iter().all(|f| stale[f].fresh);
                let nested_only = flipped.iter().all(|f| stale[f].fresh || info.filters[*f].parent.is_some());
                let w = self.witness(json!({
                    "note": "no recording layer sits under the filter(s); the span is stored as rejected by them although they accept it (it disappears from their context lookups)",
                    "rejects_left_behind_on_this_thread": leak_json(&stale), "filters_that_lost_the_span": flipped, "emission_ran_an_enabled_pass": enabled_calls,
                }));
                if strict {
                    self.out.count("f3_span_hidden_from_a_filter_without_recording_layer", 1);
                    self.out.finding("F3", "enabled!/log_enabled! probes and events vetoed by a global layer's event_enabled leave per-layer filter bits set; the next always-interest emission on the thread is missed by the layer whose filter rejected", w);
                } else if !enabled_calls && nested_only {
                    self.out.count("f3b_span_hidden_from_a_filter_without_recording_layer", 1);
                    self.out.finding("F3b", "wider effect of F3 with nested Filtered: the reject an inner filter left behind in a probe / vetoed event survives later emissions whose enabled pass the outer filter cut short (inner filter not re-evaluated, its did_enable not reached) and makes the layer miss a LATER always-interest emission", w);
                } else {
                    panic!("HARNESS: span lost by filters {flipped:?} in an emission that ran an enabled pass");
                }
            }
        }
        // did the on_event / on_new_span stage run?
        let reached_delivery = if enabled_calls { !global_reject && if is_event { v.ev_ok } else { new_span.is_some() } } else { lev_n > 0 || nacc > 0 };
        if reached_delivery {
            self.consume(s, t);
        } else if enabled_calls && self.leak[t].values().any(|x| x.fresh) {
            self.count("leaking_interactions_event_enabled_veto");
        }
        if !self.licence_class && !self.leak[t].is_empty() {
            panic!("HARNESS: a reject was left behind in a plain-class history: {:?}", self.leak[t]);
        }
        Ok(())
    }

    fn settle_plain(&mut self, cmp: Cmp, what_op: &str) -> Result<(), Stop> {
        self.out.evals += 1;
        if !cmp.problems.is_empty() || !cmp.missing.is_empty() {
            let what = if cmp.problems.iter().any(|p| p.starts_with("EXTRA")) {
                "a layer received a follow-up notification (enter/exit/record/close) of a span its filters rejected"
            } else if !cmp.missing.is_empty() {
                "a layer misses a follow-up notification (enter/exit/record/close) of a span its filters accepted"
            } else {
                "per-layer callback log of a span follow-up differs from the reference model"
            };
            return Err(self.violation(what, json!({"operation": what_op, "problems": cmp.problems, "missed_by_layers": cmp.missing})));
        }
        Ok(())
    }

    fn followup_exp(&mut self, s: usize, serial: u64, k: K, aux: u64, t: usize, with_cur: bool) -> Vec<Exp> {
        let nleaf = self.stacks[s].info.leaves.len();
        let mut exp = vec![];
        for i in 0..nleaf {
            let f = self.leaf_filter(s, i);
            if self.vis(serial, f) {
                let cur = if with_cur { Some(self.cur_for(t, f).map(|c| self.spans[&c].id)) } else { None };
                exp.push(Exp { leaf: i, k, key: serial, aux, cur, scope: None, alt_scope: None });
            }
        }
        self.out.count("span_followups_judged", 1);
        if !exp.is_empty() && exp.len() < nleaf {
            self.out.count("span_followups_delivered_to_a_strict_subset", 1);
            let bits: String = (0..nleaf).map(|i| if exp.iter().any(|e| e.leaf == i) { '1' } else { '0' }).collect();
            let sig = format!("{}|{:?}|{}", self.stacks[s].sig, k, bits);
            self.out.distinct_str(&sig);
        }
        exp
    }

    // ---- operations -----------------------------------------------------------------------

    fn pick_event_cs(&mut self, kind: Kind) -> (&'static Cs, bool) {
        let used_len = match kind {
            Kind::Event => self.pools.used_ev.len(),
            Kind::Span => self.pools.used_sp.len(),
            Kind::Probe => self.pools.used_pr.len(),
        };
        if used_len > 0 && self.rng.chance(1, 2) {
            let k = self.rng.usize(used_len);
            let c = match kind {
                Kind::Event => self.pools.used_ev[k],
                Kind::Span => self.pools.used_sp[k],
                Kind::Probe => self.pools.used_pr[k],
            };
            return (c, false);
        }
        let (l, tg) = (1 + self.rng.usize(5), self.rng.usize(4));
        match self.pools.fresh.take(l, tg, kind) {
            Some(c) => {
                match kind {
                    Kind::Event => self.pools.used_ev.push(c),
                    Kind::Span => self.pools.used_sp.push(c),
                    Kind::Probe => self.pools.used_pr.push(c),
                }
                (c, true)
            }
            None => {
                let base = match kind {
                    Kind::Event => &self.pools.used_ev,
                    Kind::Span => &self.pools.used_sp,
                    Kind::Probe => &self.pools.used_pr,
                };
                let cands: Vec<&'static Cs> = base.iter().copied().filter(|c| c.level == l && c.target == tg).collect();
                (*self.rng.pick(&cands), false)
            }
        }
    }

    fn op_new_span(&mut self, t: usize) -> Result<(), Stop> {
        let s = self.tmap[t];
        let (cs, fresh) = if self.rng.chance(1, 3) {
            (SpanCs::Named(&NAMED[self.rng.usize(8)][self.rng.usize(5)]), false)
        } else {
            let (c, f) = self.pick_event_cs(Kind::Span);
            (SpanCs::Pool(c), f)
        };
        let m = cs.meta();
        let serial = self.next();
        let v = self.verdicts(s, t, m, false);
        let hidx = self.handles.len();
        self.trace.push(format!("[t{t}/stack{s}] h{hidx} = span!({}) {} serial s{serial}{} -> reference: receivers {:?}", meta_code(m), cs.label(), if fresh { " (first hit)" } else { "" }, recv(&v.leaf)));
        let r = self.workers.run(t, move || {
            let sp = cs.emit(serial);
            let id = sp.id().map(|i| i.into_u64());
            (sp, id, vcs::rank_of_filter(&LevelFilter::current()))
        });
        let (span, id, maxlvl) = match r {
            Ok(x) => x,
            Err(p) => return self.on_panic(t, p),
        };
        self.count("ops_new_span");
        let (lev, fev) = self.drain(s)?;
        let nleaf = v.leaf.len();
        if let Some(id) = id {
            let parent = self.tstack[t].last().copied();
            self.spans.insert(serial, MSpan { stack: s, id, parent, meta: m, acc: v.acc.clone(), closed: vec![0; nleaf] });
            self.count("spans_created");
        } else {
            self.count("span_handles_disabled");
        }
        let mut exp = vec![];
        for i in 0..nleaf {
            if v.leaf[i] {
                if id.is_some() {
                    let f = self.leaf_filter(s, i);
                    let cur = self.cur_for(t, f).map(|c| self.spans[&c].id);
                    let chain = self.chain_from(Some(serial), f);
                    let full = self.chain_from(Some(serial), None);
                    if chain.len() < full.len() {
                        self.out.count("lookups_with_a_hidden_span_on_the_path", 1);
                    }
                    exp.push(Exp { leaf: i, k: K::New, key: serial, aux: 0, cur: Some(cur), scope: Some(self.ids(&chain)), alt_scope: None });
                } else {
                    exp.push(Exp { leaf: i, k: K::New, key: serial, aux: 0, cur: None, scope: None, alt_scope: None });
                }
            }
        }
        let cmp = self.compare(s, &exp, &lev);
        self.handles.push(Some(H { span, serial: id.map(|_| serial), stack: s }));
        self.settle_emission(s, t, &v, cmp, &fev, lev.len(), id.map(|_| serial), false, cs.label(), m, maxlvl)
    }

    fn op_event(&mut self, t: usize) -> Result<(), Stop> {
        let s = self.tmap[t];
        // a quarter of the events name an explicit parent: a live span of this stack (entered
        // or not, possibly one that some layer's filter rejected), or `None` (a disabled handle)
        let el = self.eligible(t);
        let explicit: Option<usize> = if !el.is_empty() && self.rng.chance(1, 4) { Some(*self.rng.pick(&el)) } else { None };
        let xcs = match explicit {
            Some(_) => self.pools.fresh.take_xparent_event(1 + self.rng.usize(5), self.rng.usize(4)),
            None => None,
        };
        let (cs, fresh) = match xcs {
            Some(c) => (c, true),
            None => self.pick_event_cs(Kind::Event),
        };
        let explicit = if xcs.is_some() { explicit } else { None };
        let xparent: Option<(Option<u64>, Option<tracing::Id>)> = explicit.map(|hi| {
            let h = self.handles[hi].as_ref().unwrap();
            (h.serial, h.span.id())
        });
        let m = Meta { level: cs.level, target: cs.target, span: false, name: 0 };
        let opid = self.next();
        let v = self.verdicts(s, t, m, true);
        self.trace.push(format!(
            "[t{t}/stack{s}] event!({}{}) pool#{} op{opid}{} -> reference: receivers {:?}",
            match (&xparent, explicit) {
                (Some((Some(p), _)), Some(hi)) => format!("parent: h{hi} [s{p}], "),
                (Some((None, _)), Some(hi)) => format!("parent: h{hi} [disabled handle => None], "),
                _ => String::new(),
            },
            meta_code(m),
            cs.idx,
            if fresh { " (first hit)" } else { "" },
            recv(&v.leaf)
        ));
        let xid = xparent.as_ref().map(|x| x.1.clone());
        let maxlvl = match self.workers.run(t, move || {
            if let Some(id) = &xid {
                vcs::set_xparent(id.clone());
            }
            let _ = (cs.emit)(opid);
            vcs::set_xparent(None);
            vcs::rank_of_filter(&LevelFilter::current())
        }) {
            Ok(x) => x,
            Err(p) => return self.on_panic(t, p),
        };
        self.count("ops_event");
        let (lev, fev) = self.drain(s)?;
        let mut exp = vec![];
        for i in 0..v.leaf.len() {
            if v.leaf[i] {
                let f = self.leaf_filter(s, i);
                let chain = self.ctx_chain(t, f);
                let full = self.ctx_chain(t, None);
                if chain.len() < full.len() || self.cur_for(t, f) != self.cur_for(t, None) {
                    self.out.count("lookups_with_a_hidden_span_on_the_path", 1);
                }
                match &xparent {
                    None => exp.push(Exp { leaf: i, k: K::Event, key: opid, aux: 0, cur: Some(chain.first().map(|c| self.spans[c].id)), scope: Some(self.ids(&chain)), alt_scope: None }),
                    Some((p, _)) => {
                        // explicit parent: the event's scope starts at the parent, whatever is
                        // entered; a parent this layer's filters rejected gives no span at all
                        // (the chain of the parent's accepted ancestors is accepted too)
                        self.out.count("events_with_an_explicit_parent_judged", 1);
                        let cur = chain.first().map(|c| self.spans[c].id);
                        let (scope, alt) = match p {
                            None => (vec![], None),
                            Some(p) if self.vis(*p, f) => (self.ids(&self.chain_from(Some(*p), f)), None),
                            Some(p) => {
                                self.out.count("events_whose_explicit_parent_is_hidden_from_the_layer", 1);
                                (vec![], Some(self.ids(&self.chain_from(Some(*p), f))))
                            }
                        };
                        if p.is_some() && Some(scope.first().copied()) != Some(cur) {
                            self.out.count("events_whose_explicit_parent_is_not_the_current_span", 1);
                        }
                        exp.push(Exp { leaf: i, k: K::Event, key: opid, aux: 0, cur: Some(cur), scope: Some(scope), alt_scope: alt });
                    }
                }
            }
        }
        let cmp = self.compare(s, &exp, &lev);
        self.settle_emission(s, t, &v, cmp, &fev, lev.len(), None, true, format!("pool#{}", cs.idx), m, maxlvl)
    }

    fn op_probe(&mut self, t: usize, log_probe: bool) -> Result<(), Stop> {
        let s = self.tmap[t];
        let (m, desc, result) = if log_probe {
            let (l, tg) = (1 + self.rng.usize(5), self.rng.usize(4));
            let m = Meta { level: l, target: tg, span: false, name: 0 };
            let tracer = self.tracer.clone();
            self.trace.push(format!("[t{t}/stack{s}] log_enabled!({}) through LogTracer", meta_code(m)));
            let r = self.workers.run(t, move || {
                let md = log::Metadata::builder().level(log_level(l)).target(TARGETS[tg]).build();
                log::Log::enabled(&*tracer, &md)
            });
            (m, "log_enabled_probe", r)
        } else {
            let (cs, _) = self.pick_event_cs(Kind::Probe);
            let m = Meta { level: cs.level, target: cs.target, span: false, name: 0 };
            self.trace.push(format!("[t{t}/stack{s}] enabled!({}) pool#{}", meta_code(m), cs.idx));
            let r = self.workers.run(t, move || match (cs.emit)(0) {
                Emitted::Probe(b) => b,
                _ => false,
            });
            (m, "enabled_probe", r)
        };
        let answer = match result {
            Ok(b) => b,
            Err(p) => return self.on_panic(t, p),
        };
        self.count(if log_probe { "ops_log_enabled_probe" } else { "ops_enabled_probe" });
        let v = self.verdicts(s, t, m, false);
        let (lev, fev) = self.drain(s)?;
        let mut problems = vec![];
        self.check_verdicts(s, &v, &fev, &mut problems);
        for e in &lev {
            problems.push(format!("EXTRA: rec#{} got {:?}({}) during an enabled-probe", e.layer, e.k, e.key));
        }
        self.out.evals += 1;
        if !problems.is_empty() {
            return Err(self.violation("an enabled-probe was evaluated against the wrong context or produced a notification", json!({"problems": problems, "probe_answer": answer})));
        }
        if let Some(l) = self.trace.last_mut() {
            l.push_str(&format!(" = {answer}"));
        }
        let enabled_calls = fev.iter().any(|e| !e.event_enabled);
        if enabled_calls {
            self.apply_pass(t, &fev, desc);
            if self.leak[t].values().any(|x| x.fresh) {
                self.count(&format!("leaking_interactions_{desc}"));
            }
        }
        Ok(())
    }

    fn eligible(&self, t: usize) -> Vec<usize> {
        let s = self.tmap[t];
        (0..self.handles.len()).filter(|i| self.handles[*i].as_ref().map(|h| h.stack == s).unwrap_or(false)).collect()
    }

    fn op_enter(&mut self, t: usize, hi: usize) -> Result<(), Stop> {
        let s = self.tmap[t];
        let h = self.handles[hi].take().unwrap();
        let serial = h.serial;
        let gid = self.next();
        self.trace.push(format!("[t{t}/stack{s}] g{gid} = h{hi}.clone().entered() [{}]", serial.map(|x| format!("s{x}")).unwrap_or("disabled".into())));
        let r = self.workers.run(t, move || {
            let g = h.span.clone().entered();
            GUARDS.with(|gs| gs.borrow_mut().push((gid, g)));
            h
        });
        let h = match r {
            Ok(h) => h,
            Err(p) => return self.on_panic(t, p),
        };
        self.handles[hi] = Some(h);
        self.count("ops_enter");
        self.guards[t].push((gid, serial));
        let (lev, _) = self.drain(s)?;
        let exp = match serial {
            Some(x) => {
                self.tstack[t].push(x);
                self.followup_exp(s, x, K::Enter, 0, t, true)
            }
            None => vec![],
        };
        let cmp = self.compare(s, &exp, &lev);
        self.settle_plain(cmp, "enter")
    }

    fn op_exit(&mut self, t: usize, gi: usize) -> Result<(), Stop> {
        let s = self.tmap[t];
        let (gid, serial) = self.guards[t].remove(gi);
        self.trace.push(format!("[t{t}/stack{s}] drop(g{gid}) [{}]", serial.map(|x| format!("exit s{x}")).unwrap_or("disabled".into())));
        let r = self.workers.run(t, move || {
            let g = GUARDS.with(|gs| {
                let mut gs = gs.borrow_mut();
                let p = gs.iter().position(|x| x.0 == gid).expect("HARNESS: guard not found");
                gs.remove(p)
            });
            drop(g);
        });
        if let Err(p) = r {
            return self.on_panic(t, p);
        }
        self.count("ops_exit");
        let (lev, _) = self.drain(s)?;
        let exp = match serial {
            Some(x) => {
                if let Some(p) = self.tstack[t].iter().rposition(|y| *y == x) {
                    self.tstack[t].remove(p);
                }
                self.followup_exp(s, x, K::Exit, 0, t, true)
            }
            None => vec![],
        };
        let cmp = self.compare(s, &exp, &lev);
        self.settle_plain(cmp, "exit")
    }

    fn op_record(&mut self, t: usize, hi: usize) -> Result<(), Stop> {
        let s = self.tmap[t];
        let h = self.handles[hi].take().unwrap();
        let serial = h.serial;
        let val = self.next();
        self.trace.push(format!("[t{t}/stack{s}] h{hi}.record(id = {val}) [{}]", serial.map(|x| format!("s{x}")).unwrap_or("disabled".into())));
        let r = self.workers.run(t, move || {
            h.span.record("id", val);
            h
        });
        let h = match r {
            Ok(h) => h,
            Err(p) => return self.on_panic(t, p),
        };
        self.handles[hi] = Some(h);
        self.count("ops_record");
        let (lev, _) = self.drain(s)?;
        let exp = match serial {
            Some(x) => self.followup_exp(s, x, K::Record, val, t, false),
            None => vec![],
        };
        let cmp = self.compare(s, &exp, &lev);
        self.settle_plain(cmp, "record")
    }

    fn op_drop(&mut self, t: usize, hi: usize) -> Result<(), Stop> {
        let s = self.tmap[t];
        let h = self.handles[hi].take().unwrap();
        self.trace.push(format!("[t{t}/stack{s}] drop(h{hi}) [{}]", h.serial.map(|x| format!("s{x}")).unwrap_or("disabled".into())));
        if let Err(p) = self.workers.run(t, move || drop(h)) {
            return self.on_panic(t, p);
        }
        self.count("ops_drop_handle");
        let (lev, _) = self.drain(s)?;
        let cmp = self.compare(s, &[], &lev);
        self.settle_plain(cmp, "drop handle")
    }

    fn op_clone(&mut self, t: usize, hi: usize) -> Result<(), Stop> {
        let s = self.tmap[t];
        let h = self.handles[hi].take().unwrap();
        let n = self.handles.len();
        self.trace.push(format!("[t{t}/stack{s}] h{n} = h{hi}.clone()"));
        let r = self.workers.run(t, move || {
            let c = h.span.clone();
            (h, c)
        });
        let (h, c) = match r {
            Ok(x) => x,
            Err(p) => return self.on_panic(t, p),
        };
        let (serial, stack) = (h.serial, h.stack);
        self.handles[hi] = Some(h);
        self.handles.push(Some(H { span: c, serial, stack }));
        self.count("ops_clone_handle");
        let (lev, _) = self.drain(s)?;
        let cmp = self.compare(s, &[], &lev);
        self.settle_plain(cmp, "clone handle")
    }

    fn step(&mut self) -> Result<(), Stop> {
        let pending: Vec<usize> = (0..2).filter(|t| !self.leak[*t].is_empty()).collect();
        let t = if !pending.is_empty() && self.rng.chance(3, 5) { *self.rng.pick(&pending) } else { self.rng.usize(2) };
        let el = self.eligible(t);
        let enterable: Vec<usize> = el
            .iter()
            .copied()
            .filter(|i| match self.handles[*i].as_ref().unwrap().serial {
                Some(x) => !self.tstack[t].contains(&x),
                None => true,
            })
            .collect();
        let live = el.len();
        let ng = self.guards[t].len();
        let pc = self.licence_class;
        let boost = if !self.leak[t].is_empty() { 3 } else { 1 };
        let w = [
            if live < 8 { 6 * boost } else { 1 },
            9 * boost,
            if !enterable.is_empty() && ng < 5 { 6 } else { 0 },
            if ng > 0 { 4 } else { 0 },
            if live > 0 { 2 } else { 0 },
            if live > 0 { 2 } else { 0 },
            if live > 0 && live < 8 { 1 } else { 0 },
            if pc { 4 } else { 0 },
            if pc { 2 } else { 0 },
        ];
        match self.rng.weighted(&w) {
            0 => self.op_new_span(t),
            1 => self.op_event(t),
            2 => {
                let hi = *self.rng.pick(&enterable);
                self.op_enter(t, hi)
            }
            3 => {
                let gi = if self.rng.chance(7, 10) { ng - 1 } else { self.rng.usize(ng) };
                self.op_exit(t, gi)
            }
            4 => {
                let hi = *self.rng.pick(&el);
                self.op_record(t, hi)
            }
            5 => {
                let hi = *self.rng.pick(&el);
                self.op_drop(t, hi)
            }
            6 => {
                let hi = *self.rng.pick(&el);
                self.op_clone(t, hi)
            }
            7 => self.op_probe(t, false),
            _ => self.op_probe(t, true),
        }
    }

    fn wind_down(&mut self) -> Result<(), Stop> {
        for t in 0..2 {
            while !self.guards[t].is_empty() && !self.aborted {
                let gi = self.guards[t].len() - 1;
                self.op_exit(t, gi)?;
            }
        }
        let mut order: Vec<usize> = (0..self.handles.len()).filter(|i| self.handles[*i].is_some()).collect();
        self.rng.shuffle(&mut order);
        for hi in order {
            if self.aborted {
                break;
            }
            let s = self.handles[hi].as_ref().unwrap().stack;
            let ts: Vec<usize> = (0..2).filter(|t| self.tmap[*t] == s).collect();
            let t = *self.rng.pick(&ts);
            self.op_drop(t, hi)?;
        }
        if self.aborted {
            return Ok(());
        }
        // every span some layer was shown must have closed for exactly those layers
        let mut open = vec![];
        for (k, m) in &self.spans {
            let nleaf = self.stacks[m.stack].info.leaves.len();
            for i in 0..nleaf {
                let f = self.leaf_filter(m.stack, i);
                if self.vis(*k, f) && m.closed[i] != 1 {
                    open.push(format!("span s{k}: rec#{i} (stack {}) saw {} close notifications", m.stack, m.closed[i]));
                }
            }
        }
        if !open.is_empty() {
            open.truncate(12);
            return Err(self.violation("after every handle and guard was dropped, a layer that was shown a span got no (or more than one) on_close for it", json!({"open": open})));
        }
        Ok(())
    }

    /// leak what an aborted history left behind instead of running more code of a broken stack
    fn abandon(&mut self) {
        for h in self.handles.drain(..).flatten() {
            std::mem::forget(h);
        }
        for t in 0..2 {
            let _ = self.workers.run(t, || {
                GUARDS.with(|gs| {
                    for g in gs.borrow_mut().drain(..) {
                        std::mem::forget(g);
                    }
                });
                DEFAULT.with(|d| {
                    if let Some(g) = d.borrow_mut().take() {
                        std::mem::forget(g);
                    }
                });
            });
        }
    }
}

/// development aid: `C07_TOLERATE=F24,...` only counts the named provisional findings
fn tolerated(id: &str) -> bool {
    std::env::var("C07_TOLERATE").map(|v| v.split(',').any(|x| x == id)).unwrap_or(false)
}
fn leak_json(l: &BTreeMap<usize, Stale>) -> Value {
    json!(l.iter().map(|(f, st)| json!({"filter": format!("f{f}"), "left_by": st.kind, "in": st.at, "fresh": st.fresh})).collect::<Vec<_>>())
}
fn recv(leaf: &[bool]) -> Vec<usize> {
    (0..leaf.len()).filter(|i| leaf[*i]).collect()
}

fn run_history(args: &Args, out: &mut Out, pools: &mut Pools, hidx: u64) -> Result<(), Stop> {
    let mut rng = Rng::derive(args.seed, 0xC07_0000 + args.shard, hidx);
    let licence_class = rng.chance(2, 5);
    let nstacks = if rng.chance(11, 20) { 1 } else { 2 };
    let mut stacks = vec![];
    for _ in 0..nstacks {
        let (shape, info) = gen_shape(&mut rng, licence_class);
        let log = Arc::new(Log::default());
        let disp = build_stack(&shape, &log);
        stacks.push(StackRt { disp, log, info, code: shape.code(), sig: shape.sig() });
    }
    out.count("histories", 1);
    out.count(if licence_class { "histories_probe_or_event_enabled_veto_class" } else { "histories_plain_class" }, 1);
    out.count(if nstacks == 2 { "histories_two_stacks_on_two_threads" } else { "histories_one_stack_on_two_threads" }, 1);
    for s in &stacks {
        out.count(if s.sig.starts_with("T:") { "stacks_tree_shaped" } else { "stacks_list_shaped" }, 1);
        out.count("stacks", 1);
        out.count("stack_layers", s.info.leaves.len() as u64);
        out.count("stack_per_layer_filters", s.info.filters.len() as u64);
        out.count("stack_global_filters", (s.info.globals.len() + s.info.evveto.len()) as u64);
        if s.info.filters.iter().any(|f| f.parent.is_some()) {
            out.count("stacks_with_nested_filtered", 1);
        }
        if s.info.filters.iter().any(|f| f.pred.context_dependent()) {
            out.count("stacks_with_context_dependent_filters", 1);
        }
        if s.info.filters.iter().any(|f| f.pred.kind().contains("curreg")) {
            out.count("stacks_with_a_filter_that_notes_the_span_callsites_it_is_offered", 1);
        }
        for f in &s.info.filters {
            out.set("filter_kinds", f.pred.kind());
        }
        for g in &s.info.globals {
            out.set("global_filter_kinds", g.kind());
        }
    }
    let workers = Workers::new(2);
    let tmap = [0, nstacks - 1];
    for t in 0..2 {
        let d = stacks[tmap[t]].disp.clone();
        workers
            .run(t, move || {
                let g = dispatch::set_default(&d);
                DEFAULT.with(|x| *x.borrow_mut() = Some(g));
            })
            .expect("HARNESS: install default");
    }
    let nops = 40 + rng.usize(41);
    let mut h = Hist {
        args,
        out,
        pools,
        rng,
        hidx,
        workers,
        stacks,
        tmap,
        tstack: [vec![], vec![]],
        spans: HashMap::new(),
        handles: vec![],
        guards: [vec![], vec![]],
        leak: [BTreeMap::new(), BTreeMap::new()],
        trace: vec![],
        licence_class,
        aborted: false,
        tracer: Arc::new(LogTracer::new()),
        judged: HashMap::new(),
    };
    let mut res = Ok(());
    for _ in 0..nops {
        if h.aborted {
            break;
        }
        res = h.step();
        if res.is_err() {
            break;
        }
    }
    if res.is_ok() && !h.aborted {
        res = h.wind_down();
    }
    if res.is_err() || h.aborted {
        h.abandon();
        if res.is_err() {
            std::mem::forget(h.stacks.drain(..).collect::<Vec<_>>());
            return res;
        }
    } else {
        for t in 0..2 {
            let _ = h.workers.run(t, || DEFAULT.with(|d| drop(d.borrow_mut().take())));
        }
    }
    if h.out.samples.is_empty() && args.shard == 0 && h.trace.len() > 20 {
        let ops: Vec<String> = h.trace.iter().take(30).cloned().collect();
        let st: Vec<String> = h.stacks.iter().map(|s| s.code.clone()).collect();
        h.out.sample(json!({"stacks": st, "thread_to_stack": h.tmap, "first_ops": ops}));
    }
    Ok(())
}

fn child(args: &Args) {
    install_hook();
    let nh = args.get_u64("hist", 50);
    let mut out = Out::new();
    let mut pools = Pools { fresh: Fresh::new(), used_ev: vec![], used_sp: vec![], used_pr: vec![], next: 0, f3_witnessed: [false; 4] };
    for h in 0..nh {
        if run_history(args, &mut out, &mut pools, h).is_err() {
            break;
        }
    }
    out.emit();
    // skip destructors of whatever a stopped history left behind
    std::process::exit(0);
}
