// C10 support: evaluation counters, typed recording visitor + collector, value generators.
// Used by the generated corpus (checks/src/gen_c10/*.rs, produced by harness/gen/c10.py)
// and by the driver (checks/src/c10_body.rs).
#![allow(dead_code)]

use std::cell::RefCell;
use std::error::Error;
use std::fmt;
use std::num::*;
use std::sync::atomic::{AtomicU64, Ordering};
use std::sync::{Mutex, OnceLock};
use tracing_core::field::{Field, Visit};
use tracing_core::span::{Attributes, Current, Id, Record};
use tracing_core::{collect::Interest, Collect, Event, LevelFilter, Metadata};
use vlib::{json, Rng, Value as J};

// ------------------------------------------------------------------ evaluation counters

pub const MAX_TICKS: usize = 128;
thread_local! {
    static TICKS: RefCell<[u32; MAX_TICKS]> = const { RefCell::new([0; MAX_TICKS]) };
}

#[inline(never)]
fn bump(k: usize) {
    TICKS.with(|t| t.borrow_mut()[k] += 1);
}

/// Counts one evaluation of the expression it wraps and hands the value through.
#[inline(never)]
pub fn tick<T>(k: usize, v: T) -> T {
    bump(k);
    v
}
pub fn reset_ticks() {
    TICKS.with(|t| *t.borrow_mut() = [0; MAX_TICKS]);
}
pub fn ticks(n: usize) -> Vec<u32> {
    TICKS.with(|t| t.borrow()[..n].to_vec())
}

/// `w.val` / `w.inner.val` shorthand fields: the only observable part of evaluating a
/// dotted path is the auto-deref, so the wrapper counts `Deref::deref` calls.
pub struct Dr<T> {
    k: usize,
    h: T,
}
impl<T> Dr<T> {
    pub fn new(k: usize, h: T) -> Self {
        Dr { k, h }
    }
}
impl<T> std::ops::Deref for Dr<T> {
    type Target = T;
    fn deref(&self) -> &T {
        bump(self.k);
        &self.h
    }
}
pub struct H1<T> {
    pub val: T,
}
pub struct H2<T> {
    pub inner: H1<T>,
}

// ------------------------------------------------------------------ what a visitor sees

#[derive(Clone, Debug)]
pub enum Rec {
    U64(u64),
    I64(i64),
    U128(u128),
    I128(i128),
    /// bit pattern
    F64(u64),
    Bool(bool),
    Str(String),
    Bytes(Vec<u8>),
    Error { display: String, debug: String, chain: Vec<String> },
    Debug(String),
    /// `record_debug` value seen / expected under two format specs: `{:?}` and `{:>14?}` (a
    /// value recorded with the display sigil must hand the visitor's formatter flags on to the
    /// value's `Display` impl, one recorded with `?` to its `Debug` impl)
    Debug2 { plain: String, padded: String },
}
impl Rec {
    pub fn f64(x: f64) -> Rec {
        Rec::F64(x.to_bits())
    }
    pub fn method(&self) -> &'static str {
        match self {
            Rec::U64(_) => "record_u64",
            Rec::I64(_) => "record_i64",
            Rec::U128(_) => "record_u128",
            Rec::I128(_) => "record_i128",
            Rec::F64(_) => "record_f64",
            Rec::Bool(_) => "record_bool",
            Rec::Str(_) => "record_str",
            Rec::Bytes(_) => "record_bytes",
            Rec::Error { .. } => "record_error",
            Rec::Debug(_) | Rec::Debug2 { .. } => "record_debug",
        }
    }
    /// exact equality; two NaNs are equal whatever their payload (a widening conversion
    /// may legitimately quieten a NaN), 0.0 and -0.0 are different.
    pub fn same(&self, o: &Rec) -> bool {
        match (self, o) {
            (Rec::U64(a), Rec::U64(b)) => a == b,
            (Rec::I64(a), Rec::I64(b)) => a == b,
            (Rec::U128(a), Rec::U128(b)) => a == b,
            (Rec::I128(a), Rec::I128(b)) => a == b,
            (Rec::F64(a), Rec::F64(b)) => {
                let (x, y) = (f64::from_bits(*a), f64::from_bits(*b));
                (x.is_nan() && y.is_nan()) || a == b
            }
            (Rec::Bool(a), Rec::Bool(b)) => a == b,
            (Rec::Str(a), Rec::Str(b)) => a == b,
            (Rec::Bytes(a), Rec::Bytes(b)) => a == b,
            (
                Rec::Error { display: a, debug: b, chain: c },
                Rec::Error { display: x, debug: y, chain: z },
            ) => a == x && b == y && c == z,
            (Rec::Debug(a), Rec::Debug(b)) => a == b,
            (Rec::Debug(a), Rec::Debug2 { plain, .. }) | (Rec::Debug2 { plain, .. }, Rec::Debug(a)) => a == plain,
            (Rec::Debug2 { plain: a, padded: pa }, Rec::Debug2 { plain: b, padded: pb }) => a == b && pa == pb,
            _ => false,
        }
    }
    pub fn to_json(&self) -> J {
        let v = match self {
            Rec::U64(x) => json!(x),
            Rec::I64(x) => json!(x),
            Rec::U128(x) => json!(x.to_string()),
            Rec::I128(x) => json!(x.to_string()),
            Rec::F64(b) => json!(format!("{:?} (bits {:#018x})", f64::from_bits(*b), b)),
            Rec::Bool(x) => json!(x),
            Rec::Str(s) => json!(clip(s)),
            Rec::Bytes(b) => json!(clip(&format!("{b:?}"))),
            Rec::Error { display, debug, chain } => {
                json!({"display": clip(display), "debug": clip(debug), "source_chain": chain.iter().map(|s| clip(s)).collect::<Vec<_>>()})
            }
            Rec::Debug(s) => json!(clip(s)),
            Rec::Debug2 { plain, padded } => json!({"{:?}": clip(plain), "{:>14?}": clip(padded)}),
        };
        json!({ self.method(): v })
    }
    /// coarse class of the value, for coverage counters
    pub fn class(&self) -> &'static str {
        self.method()
    }
}

pub fn clip(s: &str) -> String {
    if s.len() <= 300 {
        s.to_string()
    } else {
        let mut i = 200;
        while !s.is_char_boundary(i) {
            i += 1;
        }
        format!("{}… [{} bytes, fnv {:016x}]", &s[..i], s.len(), vlib::rng::hash_str(s))
    }
}

/// One expected visit.
#[derive(Clone, Debug)]
pub struct E {
    pub name: &'static str,
    /// second acceptable spelling of the name (raw identifiers: `r#type` / `type`)
    pub alt: Option<&'static str>,
    pub rec: Rec,
}
pub fn e(name: &'static str, rec: Rec) -> E {
    E { name, alt: None, rec }
}
pub fn e2(name: &'static str, alt: &'static str, rec: Rec) -> E {
    E { name, alt: Some(alt), rec }
}
impl E {
    pub fn to_json(&self) -> J {
        json!({"name": self.name, "visit": self.rec.to_json()})
    }
}

#[derive(Clone, Debug)]
pub struct Seen {
    pub name: String,
    pub rec: Rec,
}
impl Seen {
    pub fn to_json(&self) -> J {
        json!({"name": self.name, "visit": self.rec.to_json()})
    }
}

/// Typed recording visitor: every `Visit` method is overridden, so nothing is forwarded
/// by a default method and the log says exactly which method the `Value` impl chose.
#[derive(Default)]
pub struct TypedVisitor {
    pub seen: Vec<Seen>,
}
impl TypedVisitor {
    fn push(&mut self, f: &Field, rec: Rec) {
        self.seen.push(Seen { name: f.name().to_string(), rec });
    }
}
impl Visit for TypedVisitor {
    fn record_f64(&mut self, f: &Field, v: f64) {
        self.push(f, Rec::f64(v));
    }
    fn record_i64(&mut self, f: &Field, v: i64) {
        self.push(f, Rec::I64(v));
    }
    fn record_u64(&mut self, f: &Field, v: u64) {
        self.push(f, Rec::U64(v));
    }
    fn record_i128(&mut self, f: &Field, v: i128) {
        self.push(f, Rec::I128(v));
    }
    fn record_u128(&mut self, f: &Field, v: u128) {
        self.push(f, Rec::U128(v));
    }
    fn record_bool(&mut self, f: &Field, v: bool) {
        self.push(f, Rec::Bool(v));
    }
    fn record_str(&mut self, f: &Field, v: &str) {
        self.push(f, Rec::Str(v.to_string()));
    }
    fn record_bytes(&mut self, f: &Field, v: &[u8]) {
        self.push(f, Rec::Bytes(v.to_vec()));
    }
    fn record_error(&mut self, f: &Field, v: &(dyn Error + 'static)) {
        let mut chain = vec![];
        let mut cur = v.source();
        let mut n = 0;
        while let Some(s) = cur {
            chain.push(s.to_string());
            cur = s.source();
            n += 1;
            if n > 64 {
                break;
            }
        }
        self.push(
            f,
            Rec::Error { display: v.to_string(), debug: format!("{v:?}"), chain },
        );
    }
    fn record_debug(&mut self, f: &Field, v: &dyn fmt::Debug) {
        self.push(f, Rec::Debug2 { plain: format!("{v:?}"), padded: format!("{v:>14?}") });
    }
}

// ------------------------------------------------------------------ recording collector

/// The four (five) collector configurations of DESIGN.md 5/C10.
#[derive(Clone, Copy, Debug, PartialEq, Eq)]
pub enum Cfg {
    /// (a) `Interest::always`
    Always,
    /// (a') `Interest::sometimes`, `enabled() == true`
    DynOn,
    /// (b) `Interest::never` at registration
    Never,
    /// (c) `Interest::sometimes`, `enabled() == false`
    DynOff,
    /// (d) would accept everything, but `max_level_hint` = rank (0 = OFF .. 5 = TRACE)
    Cap(usize),
}
impl Cfg {
    pub fn name(&self) -> &'static str {
        match self {
            Cfg::Always => "a:always",
            Cfg::DynOn => "a2:sometimes+enabled",
            Cfg::Never => "b:never",
            Cfg::DynOff => "c:sometimes+disabled",
            Cfg::Cap(_) => "d:level-capped",
        }
    }
    pub fn enables(&self) -> bool {
        matches!(self, Cfg::Always | Cfg::DynOn)
    }
}

#[derive(Clone, Debug)]
pub enum Got {
    NewSpan { id: u64, name: String, level: usize, fields: Vec<Seen> },
    Record { id: u64, fields: Vec<Seen> },
    Event { name: String, level: usize, fields: Vec<Seen> },
    /// `Collect::enabled` was asked (only logged; `enabled!` ends here)
    EnabledQ { name: String, field_names: Vec<String> },
}
impl Got {
    pub fn to_json(&self) -> J {
        let fs = |v: &Vec<Seen>| v.iter().map(|s| s.to_json()).collect::<Vec<_>>();
        match self {
            Got::NewSpan { id, name, level, fields } => json!({"new_span": name, "id": id, "level(1=ERROR..5=TRACE)": level, "visited": fs(fields)}),
            Got::Record { id, fields } => json!({"record": id, "visited": fs(fields)}),
            Got::Event { name, level, fields } => json!({"event": name, "level(1=ERROR..5=TRACE)": level, "visited": fs(fields)}),
            Got::EnabledQ { name, field_names } => json!({"enabled?": name, "fields": field_names}),
        }
    }
}

pub struct RecCollector {
    pub cfg: Cfg,
    log: Mutex<Vec<Got>>,
    next: AtomicU64,
    /// metadata name prefix that the collector always lets through and never logs
    /// (the harness's own parent spans)
    pub registrations: AtomicU64,
    /// the run-time switch of the two `sometimes` configurations (starts as the configuration
    /// says; the driver flips it between invocations of one callsite)
    pub dyn_on: std::sync::atomic::AtomicBool,
}
pub const PARENT_NAME: &str = "c10_parent";

impl RecCollector {
    pub fn new(cfg: Cfg) -> Self {
        RecCollector { cfg, log: Mutex::new(vec![]), next: AtomicU64::new(1), registrations: AtomicU64::new(0), dyn_on: std::sync::atomic::AtomicBool::new(matches!(cfg, Cfg::DynOn)) }
    }
    pub fn take(&self) -> Vec<Got> {
        std::mem::take(&mut *self.log.lock().unwrap())
    }
    fn push(&self, g: Got) {
        self.log.lock().unwrap().push(g);
    }
}

/// `Arc` handle so that the driver keeps access to the log after `Dispatch::new`.
pub struct Shared(pub std::sync::Arc<RecCollector>);

impl Collect for Shared {
    fn register_callsite(&self, _m: &'static Metadata<'static>) -> Interest {
        self.0.registrations.fetch_add(1, Ordering::Relaxed);
        match self.0.cfg {
            Cfg::Always | Cfg::Cap(_) => Interest::always(),
            Cfg::DynOn | Cfg::DynOff => Interest::sometimes(),
            Cfg::Never => Interest::never(),
        }
    }
    fn enabled(&self, m: &Metadata<'_>) -> bool {
        self.0.push(Got::EnabledQ {
            name: m.name().to_string(),
            field_names: m.fields().iter().map(|f| f.name().to_string()).collect(),
        });
        match self.0.cfg {
            Cfg::Always | Cfg::Cap(_) => true,
            Cfg::DynOn | Cfg::DynOff => self.0.dyn_on.load(Ordering::SeqCst),
            // a collector that answered `never` is consistent when it also says no here
            Cfg::Never => false,
        }
    }
    fn max_level_hint(&self) -> Option<LevelFilter> {
        match self.0.cfg {
            Cfg::Cap(r) => Some(
                [
                    LevelFilter::OFF,
                    LevelFilter::ERROR,
                    LevelFilter::WARN,
                    LevelFilter::INFO,
                    LevelFilter::DEBUG,
                    LevelFilter::TRACE,
                ][r],
            ),
            _ => None,
        }
    }
    fn new_span(&self, a: &Attributes<'_>) -> Id {
        let id = self.0.next.fetch_add(1, Ordering::Relaxed);
        let mut v = TypedVisitor::default();
        a.record(&mut v);
        self.0.push(Got::NewSpan { id, name: a.metadata().name().to_string(), level: vlib::rec::rank(a.metadata().level()), fields: v.seen });
        Id::from_u64(id)
    }
    fn record(&self, s: &Id, r: &Record<'_>) {
        let mut v = TypedVisitor::default();
        r.record(&mut v);
        self.0.push(Got::Record { id: s.into_u64(), fields: v.seen });
    }
    fn record_follows_from(&self, _: &Id, _: &Id) {}
    fn event(&self, ev: &Event<'_>) {
        let mut v = TypedVisitor::default();
        ev.record(&mut v);
        self.0.push(Got::Event { name: ev.metadata().name().to_string(), level: vlib::rec::rank(ev.metadata().level()), fields: v.seen });
    }
    fn enter(&self, _: &Id) {}
    fn exit(&self, _: &Id) {}
    fn current_span(&self) -> Current {
        Current::unknown()
    }
}

// ------------------------------------------------------------------ outcome of one case call

/// What the generated adapter hands back to the driver.
pub struct Outcome {
    /// printable inputs (witness)
    pub inputs: Vec<String>,
    /// number of tick counters the macro invocation owns (all judged)
    pub nticks: usize,
    /// events: the one expected visit list; spans: visits expected in `new_span`
    pub first: Vec<E>,
    /// spans: expected visit lists of the later `record` calls that visit something
    /// (calls that visit nothing - Empty values, undeclared fields - are not listed)
    pub later: Vec<Vec<E>>,
    /// spans: `Span::is_disabled()` of the handle the macro returned
    pub span_disabled: Option<bool>,
    /// `enabled!`: the macro's answer
    pub probe: Option<bool>,
}

// ------------------------------------------------------------------ test types

/// Error with an explicit source chain.
#[derive(Debug, Clone)]
pub struct TErr {
    pub msg: String,
    pub src: Option<Box<TErr>>,
}
impl fmt::Display for TErr {
    fn fmt(&self, f: &mut fmt::Formatter<'_>) -> fmt::Result {
        f.write_str(&self.msg)
    }
}
impl Error for TErr {
    fn source(&self) -> Option<&(dyn Error + 'static)> {
        self.src.as_deref().map(|e| e as &(dyn Error + 'static))
    }
}
impl TErr {
    /// expectation, computed from the structure (not through `Error::source`)
    pub fn exp(&self) -> Rec {
        let mut chain = vec![];
        let mut cur = &self.src;
        while let Some(b) = cur {
            chain.push(b.msg.clone());
            cur = &b.src;
        }
        Rec::Error { display: self.msg.clone(), debug: format!("{self:?}"), chain }
    }
}

/// Display and Debug deliberately different.
#[derive(Clone)]
pub struct DD {
    pub a: i32,
    pub s: String,
}
impl fmt::Display for DD {
    fn fmt(&self, f: &mut fmt::Formatter<'_>) -> fmt::Result {
        write!(f, "DD<{}:{}>", self.a, self.s)
    }
}
impl fmt::Debug for DD {
    fn fmt(&self, f: &mut fmt::Formatter<'_>) -> fmt::Result {
        write!(f, "DD{{a={:?},s={:?}}}", self.a, self.s)
    }
}

#[derive(Debug, Clone)]
pub struct Pt {
    pub x: f32,
    pub y: i64,
    pub tag: String,
}

// ------------------------------------------------------------------ value generation

/// boundary phase length: vector j < BOUND takes boundary values only (rotating through
/// each type's list so that every boundary value of every parameter slot is used)
pub const BOUND: usize = 24;

pub struct Src {
    pub rng: Rng,
    pub j: usize,
    slot: usize,
    /// fill `Outcome::inputs` (only needed for witnesses and samples)
    pub show: bool,
}
impl Src {
    pub fn new(seed: u64, case: u64, j: usize) -> Src {
        Src { rng: Rng::derive(seed, case, j as u64), j, slot: 0, show: false }
    }
    pub fn gen<T: TVal>(&mut self) -> T {
        let b = T::boundary();
        let slot = self.slot;
        self.slot += 1;
        if self.j < BOUND {
            b[(self.j + slot * 5) % b.len()].clone()
        } else if self.rng.chance(1, 4) {
            b[self.rng.usize(b.len())].clone()
        } else {
            T::random(&mut self.rng)
        }
    }
}

pub trait TVal: Sized + Clone + 'static {
    fn boundary() -> &'static [Self];
    fn random(r: &mut Rng) -> Self;
    fn show(&self) -> String;
}

macro_rules! cached {
    ($t:ty, $e:expr) => {{
        static B: OnceLock<Vec<$t>> = OnceLock::new();
        B.get_or_init(|| $e).as_slice()
    }};
}

fn rand_bits(r: &mut Rng) -> u128 {
    // magnitudes of every size: random width, then random bits of that width
    let w = 1 + r.usize(128);
    let x = ((r.next_u64() as u128) << 64) | r.next_u64() as u128;
    if w == 128 {
        x
    } else {
        x & ((1u128 << w) - 1)
    }
}

macro_rules! tval_uint {
    ($($t:ident),*) => {$(
        impl TVal for $t {
            fn boundary() -> &'static [Self] {
                cached!($t, {
                    let mut v: Vec<$t> = vec![0, 1, 2, $t::MAX, $t::MAX - 1, $t::MAX / 2, $t::MAX / 2 + 1, 10, 255u8 as $t];
                    for s in [64u32, 63, 32, 31, 127, 8, 7, 16, 15] {
                        if s < $t::BITS { v.push(1 << s); v.push((1 << s) - 1); }
                    }
                    v.dedup();
                    v.truncate(BOUND);
                    v
                })
            }
            fn random(r: &mut Rng) -> Self { rand_bits(r) as $t }
            fn show(&self) -> String { format!("{}{}", self, stringify!($t)) }
        }
    )*};
}
tval_uint!(u8, u16, u32, u64, u128, usize);

macro_rules! tval_sint {
    ($($t:ident),*) => {$(
        impl TVal for $t {
            fn boundary() -> &'static [Self] {
                cached!($t, {
                    let mut v: Vec<$t> = vec![0, 1, -1, $t::MAX, $t::MIN, $t::MAX - 1, $t::MIN + 1, 2, -2, 10, -10];
                    for s in [63u32, 64, 31, 32, 7, 8, 15, 16] {
                        if s < $t::BITS - 1 { v.push(1 << s); v.push(-(1 << s)); v.push(-(1 << s) - 1); }
                    }
                    v.truncate(BOUND);
                    v
                })
            }
            fn random(r: &mut Rng) -> Self { rand_bits(r) as $t }
            fn show(&self) -> String { format!("{}{}", self, stringify!($t)) }
        }
    )*};
}
tval_sint!(i8, i16, i32, i64, i128, isize);

macro_rules! tval_nz {
    ($($nz:ident($t:ident)),*) => {$(
        impl TVal for $nz {
            fn boundary() -> &'static [Self] {
                cached!($nz, <$t as TVal>::boundary().iter().filter_map(|x| $nz::new(*x)).collect())
            }
            fn random(r: &mut Rng) -> Self {
                loop { if let Some(x) = $nz::new(<$t as TVal>::random(r)) { return x; } }
            }
            fn show(&self) -> String { format!("{}({})", stringify!($nz), self) }
        }
    )*};
}
tval_nz!(
    NonZeroU8(u8), NonZeroU16(u16), NonZeroU32(u32), NonZeroU64(u64), NonZeroU128(u128), NonZeroUsize(usize),
    NonZeroI8(i8), NonZeroI16(i16), NonZeroI32(i32), NonZeroI64(i64), NonZeroI128(i128), NonZeroIsize(isize)
);

macro_rules! tval_wr {
    ($($t:ident),*) => {$(
        impl TVal for Wrapping<$t> {
            fn boundary() -> &'static [Self] {
                cached!(Wrapping<$t>, <$t as TVal>::boundary().iter().map(|x| Wrapping(*x)).collect())
            }
            fn random(r: &mut Rng) -> Self { Wrapping(<$t as TVal>::random(r)) }
            fn show(&self) -> String { format!("Wrapping({})", self.0.show()) }
        }
    )*};
}
tval_wr!(u8, u16, u32, u64, u128, usize, i8, i16, i32, i64, i128, isize);

impl TVal for Wrapping<NonZeroU16> {
    fn boundary() -> &'static [Self] {
        cached!(Wrapping<NonZeroU16>, <NonZeroU16 as TVal>::boundary().iter().map(|x| Wrapping(*x)).collect())
    }
    fn random(r: &mut Rng) -> Self {
        Wrapping(<NonZeroU16 as TVal>::random(r))
    }
    fn show(&self) -> String {
        format!("Wrapping({})", self.0.show())
    }
}

impl TVal for f64 {
    fn boundary() -> &'static [Self] {
        cached!(f64, vec![
            0.0, -0.0, 1.0, -1.0, f64::NAN, -f64::NAN, f64::INFINITY, f64::NEG_INFINITY,
            f64::MIN_POSITIVE, 5e-324, -5e-324, f64::from_bits(0x000f_ffff_ffff_ffff), f64::MAX, f64::MIN,
            f64::EPSILON, 0.1, 1e-7, 1e16, 9007199254740993.0, 1e300, f32::MAX as f64, 0.30000000000000004,
            f64::from_bits(0x7ff0_0000_0000_0001), 123456789.125,
        ])
    }
    fn random(r: &mut Rng) -> Self {
        match r.below(3) {
            0 => f64::from_bits(r.next_u64()),
            1 => (r.f64() - 0.5) * 2e6,
            _ => r.range(-1000, 1000) as f64 / 8.0,
        }
    }
    fn show(&self) -> String {
        format!("{:?}f64[{:#x}]", self, self.to_bits())
    }
}
impl TVal for f32 {
    fn boundary() -> &'static [Self] {
        cached!(f32, vec![
            0.0, -0.0, 1.0, -1.0, f32::NAN, -f32::NAN, f32::INFINITY, f32::NEG_INFINITY,
            f32::MIN_POSITIVE, 1e-45, -1e-45, f32::from_bits(0x007f_ffff), f32::MAX, f32::MIN,
            f32::EPSILON, 0.1, 1e-7, 16777216.0, 16777217.0, 3.4e38, 0.3, 1.0e10,
            f32::from_bits(0x7f80_0001), 123456.125,
        ])
    }
    fn random(r: &mut Rng) -> Self {
        match r.below(3) {
            0 => f32::from_bits(r.next_u32()),
            1 => ((r.f64() - 0.5) * 2e6) as f32,
            _ => r.range(-1000, 1000) as f32 / 8.0,
        }
    }
    fn show(&self) -> String {
        format!("{:?}f32[{:#x}]", self, self.to_bits())
    }
}
impl TVal for bool {
    fn boundary() -> &'static [Self] {
        &[false, true]
    }
    fn random(r: &mut Rng) -> Self {
        r.bool()
    }
    fn show(&self) -> String {
        format!("{self}")
    }
}
impl TVal for char {
    fn boundary() -> &'static [Self] {
        &['a', '\0', '\n', '"', '\\', '\'', 'é', '\u{10FFFF}', '\u{202e}', '😀', '\u{301}', ' ', '{', '}', '\u{7f}', '\u{fffd}']
    }
    fn random(r: &mut Rng) -> Self {
        rand_char(r)
    }
    fn show(&self) -> String {
        format!("{self:?}")
    }
}

pub fn rand_char(r: &mut Rng) -> char {
    loop {
        let c = match r.below(8) {
            0..=2 => r.range(0x20, 0x7e) as u32,
            3 => r.below(0x20) as u32,
            4 => r.range(0x80, 0x7ff) as u32,
            5 => r.range(0x800, 0xffff) as u32,
            6 => r.range(0x10000, 0x10ffff) as u32,
            _ => *r.pick(&[0x22u32, 0x5c, 0x7b, 0x7d, 0x301, 0x200d, 0x202e, 0xfeff, 0x1f600, 0xfffd, 0x7f, 0x85, 0x2028]),
        };
        if let Some(c) = char::from_u32(c) {
            return c;
        }
    }
}
pub fn rand_string(r: &mut Rng) -> String {
    let n = match r.below(10) {
        0 => 0,
        1..=6 => r.usize(12),
        7 | 8 => r.usize(80),
        _ => r.usize(3000),
    };
    (0..n).map(|_| rand_char(r)).collect()
}

impl TVal for String {
    fn boundary() -> &'static [Self] {
        cached!(String, vec![
            String::new(),
            "a".into(),
            " ".into(),
            "plain ascii text".into(),
            "x".repeat(10_000),
            "quote\" backslash\\ newline\n tab\t nul\0 cr\r".into(),
            "{} {0} {name} {{}} %s %d".into(),
            "grüße, мир, 世界, 🌍🚀".into(),
            "e\u{301} a\u{308}\u{323} zero\u{200b}width \u{202e}rtl\u{202c} bom\u{feff}".into(),
            "\u{10FFFF}\u{FFFD}\u{0}\u{7f}\u{80}\u{7ff}\u{800}\u{ffff}\u{10000}".into(),
            "👩‍👩‍👧‍👦 family zwj; flags 🇩🇪🇯🇵".into(),
            "  leading and trailing  ".into(),
            "line1\nline2\r\nline3\u{2028}line4".into(),
            "key=value, other=\"quoted\" message=spoof".into(),
            "é".repeat(4097),
            "\u{1b}[31mred\u{1b}[0m".into(),
        ])
    }
    fn random(r: &mut Rng) -> Self {
        rand_string(r)
    }
    fn show(&self) -> String {
        clip(&format!("{self:?}"))
    }
}
impl TVal for Vec<u8> {
    fn boundary() -> &'static [Self] {
        cached!(Vec<u8>, vec![
            vec![],
            vec![0],
            vec![255],
            (0..=255u8).collect(),
            vec![0xff, 0xfe, 0xfd],
            b"ascii bytes".to_vec(),
            "utf8 ✓".as_bytes().to_vec(),
            vec![0xc3, 0x28],
            vec![0xed, 0xa0, 0x80],
            vec![0; 5000],
            vec![0x7f, 0x80],
            (0..1024u32).map(|i| (i * 7 + 3) as u8).collect(),
        ])
    }
    fn random(r: &mut Rng) -> Self {
        let n = match r.below(6) {
            0 => 0,
            1..=3 => r.usize(16),
            4 => r.usize(300),
            _ => r.usize(5000),
        };
        (0..n).map(|_| r.next_u64() as u8).collect()
    }
    fn show(&self) -> String {
        clip(&format!("{self:?}"))
    }
}
impl TVal for TErr {
    fn boundary() -> &'static [Self] {
        fn chain(msgs: &[&str]) -> TErr {
            let mut cur: Option<Box<TErr>> = None;
            for m in msgs.iter().rev() {
                cur = Some(Box::new(TErr { msg: m.to_string(), src: cur }));
            }
            *cur.unwrap()
        }
        cached!(TErr, vec![
            chain(&["single error"]),
            chain(&["outer", "inner"]),
            chain(&["a", "b", "c", "d", "e"]),
            chain(&[""]),
            chain(&["", "", ""]),
            chain(&["quote\" and {braces} and\nnewline", "ünïcödé 🌍"]),
            chain(&["same", "same", "same"]),
            chain(&[&"long ".repeat(500), "short"]),
            chain(&["l0", "l1", "l2", "l3", "l4", "l5", "l6", "l7", "l8", "l9", "l10", "l11"]),
        ])
    }
    fn random(r: &mut Rng) -> Self {
        let depth = 1 + r.usize(5);
        let mut cur: Option<Box<TErr>> = None;
        for _ in 0..depth {
            cur = Some(Box::new(TErr { msg: rand_string(r), src: cur }));
        }
        *cur.unwrap()
    }
    fn show(&self) -> String {
        clip(&format!("{self:?}"))
    }
}
impl TVal for DD {
    fn boundary() -> &'static [Self] {
        cached!(DD, {
            let s = <String as TVal>::boundary();
            let a = <i32 as TVal>::boundary();
            (0..12).map(|i| DD { a: a[i % a.len()], s: s[(i * 3) % s.len()].clone() }).collect()
        })
    }
    fn random(r: &mut Rng) -> Self {
        DD { a: i32::random(r), s: rand_string(r) }
    }
    fn show(&self) -> String {
        clip(&format!("{self:?}"))
    }
}
impl TVal for Pt {
    fn boundary() -> &'static [Self] {
        cached!(Pt, {
            let s = <String as TVal>::boundary();
            let x = <f32 as TVal>::boundary();
            let y = <i64 as TVal>::boundary();
            (0..16).map(|i| Pt { x: x[i % x.len()], y: y[(i * 5) % y.len()], tag: s[(i * 7) % s.len()].clone() }).collect()
        })
    }
    fn random(r: &mut Rng) -> Self {
        Pt { x: f32::random(r), y: i64::random(r), tag: rand_string(r) }
    }
    fn show(&self) -> String {
        clip(&format!("{self:?}"))
    }
}
impl TVal for Option<i32> {
    fn boundary() -> &'static [Self] {
        &[None, Some(0), Some(-1), Some(i32::MAX), Some(i32::MIN)]
    }
    fn random(r: &mut Rng) -> Self {
        if r.chance(1, 4) {
            None
        } else {
            Some(i32::random(r))
        }
    }
    fn show(&self) -> String {
        format!("{self:?}")
    }
}
impl TVal for (i32, String) {
    fn boundary() -> &'static [Self] {
        cached!((i32, String), {
            let s = <String as TVal>::boundary();
            let a = <i32 as TVal>::boundary();
            (0..12).map(|i| (a[(i * 3) % a.len()], s[i % s.len()].clone())).collect()
        })
    }
    fn random(r: &mut Rng) -> Self {
        (i32::random(r), rand_string(r))
    }
    fn show(&self) -> String {
        clip(&format!("{self:?}"))
    }
}
impl TVal for [u16; 3] {
    fn boundary() -> &'static [Self] {
        &[[0, 0, 0], [1, 2, 3], [u16::MAX, 0, u16::MAX], [255, 256, 257]]
    }
    fn random(r: &mut Rng) -> Self {
        [u16::random(r), u16::random(r), u16::random(r)]
    }
    fn show(&self) -> String {
        format!("{self:?}")
    }
}
impl TVal for Result<u8, String> {
    fn boundary() -> &'static [Self] {
        cached!(Result<u8, String>, vec![Ok(0), Ok(255), Err(String::new()), Err("failed: \"x\"".into()), Err("ü\n".into())])
    }
    fn random(r: &mut Rng) -> Self {
        if r.bool() {
            Ok(u8::random(r))
        } else {
            Err(rand_string(r))
        }
    }
    fn show(&self) -> String {
        clip(&format!("{self:?}"))
    }
}
impl TVal for std::net::Ipv4Addr {
    fn boundary() -> &'static [Self] {
        cached!(std::net::Ipv4Addr, vec![
            std::net::Ipv4Addr::new(0, 0, 0, 0),
            std::net::Ipv4Addr::new(127, 0, 0, 1),
            std::net::Ipv4Addr::new(255, 255, 255, 255),
            std::net::Ipv4Addr::new(10, 200, 3, 40),
        ])
    }
    fn random(r: &mut Rng) -> Self {
        std::net::Ipv4Addr::from(r.next_u32())
    }
    fn show(&self) -> String {
        format!("{self}")
    }
}

// ------------------------------------------------------------------ corpus table entry

#[derive(Clone, Copy, PartialEq, Eq, Debug)]
pub enum Kind {
    Event,
    Span,
    Probe,
}

pub struct Case {
    /// stable id within the corpus
    pub id: u32,
    pub kind: Kind,
    /// macro name, e.g. "event!", "info!", "warn_span!", "enabled!"
    pub mac: &'static str,
    /// 1 = ERROR .. 5 = TRACE
    pub level: usize,
    /// syntactic form signature (prefixes, per-field name/value syntax, message form, trailing comma)
    pub form: &'static str,
    /// value-type vector
    pub types: &'static str,
    /// the invocation text as generated
    pub src: &'static str,
    /// needs the harness-supplied parent span
    pub call: fn(&mut Src, &tracing::Span) -> Outcome,
}
