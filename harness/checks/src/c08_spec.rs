// C08, part 2 (included by bin/c08.rs): specs of filter expressions / layers / stacks, the
// leaf alphabets, and the builders that turn a spec into real tracing-subscriber values.

// ---------------------------------------------------------------------------------------
// leaves

/// Targets tables: (string handed to the parser or "", builder calls applied afterwards in
/// order: (Some(target), level) = with_target, (None, level) = with_default).  Tables 5.. add
/// the same key twice (more verbose / less verbose the second time; by string and by builder).
const TARGET_TABLES: [(&str, &[(Option<&str>, usize)]); 15] = [
    ("", &[]),
    ("", &[(Some("app"), 3)]),
    ("", &[(Some("app"), 4), (Some("app::db"), 5)]),
    ("", &[(None, 2), (Some("net"), 5)]),
    ("", &[(None, 4), (Some("app::db"), 0)]),
    // same key twice
    ("info,app=debug", &[(Some("app"), 5)]),
    ("warn,app=trace", &[(Some("app"), 3)]),
    ("", &[(None, 2), (None, 4)]),
    ("", &[(None, 4), (None, 2)]),
    ("warn,app=info,app=trace", &[]),
    ("app=trace,app=warn,error", &[]),
    ("warn,net=error,debug", &[]),
    ("", &[(Some("net"), 1), (Some("net"), 5), (Some("app"), 4), (Some("app"), 2)]),
    // parsed strings with a field-name directive (every pool callsite declares the field `id`)
    ("app[{id}]=debug,app=warn", &[]),
    ("app[{id}]=off,app=debug,error", &[]),
];
fn mk_targets(i: usize) -> Targets {
    let (parsed, ops) = TARGET_TABLES[i];
    let mut t = if parsed.is_empty() {
        Targets::new()
    } else {
        parsed.parse::<Targets>().unwrap_or_else(|e| panic!("HARNESS: Targets string {parsed:?} does not parse: {e}"))
    };
    for (tg, l) in ops {
        t = match tg {
            Some(tg) => t.with_target(*tg, filter_of(*l)),
            None => t.with_default(filter_of(*l)),
        };
    }
    t
}
fn targets_desc(i: usize) -> String {
    let (parsed, ops) = TARGET_TABLES[i];
    let mut s = if parsed.is_empty() { "Targets::new()".to_string() } else { format!("{parsed:?}.parse::<Targets>()") };
    for (tg, l) in ops {
        match tg {
            Some(tg) => s.push_str(&format!(".with_target({tg:?}, {})", LEVEL_NAMES[*l])),
            None => s.push_str(&format!(".with_default({})", LEVEL_NAMES[*l])),
        }
    }
    s
}

/// EnvFilter: (directive string, directives added afterwards with add_directive) — static /
/// span-scoped / field / value-matching; entries 12.. add the same key twice
const ENVS: [(&str, &[&str]); 20] = [
    ("info", &[]),
    ("app=debug", &[]),
    ("warn,app::db=trace", &[]),
    ("off", &[]),
    ("trace,app=off", &[]),
    ("[sp]=debug", &[]),
    ("[sp]=info,net=trace", &[]),
    ("app[sp]=trace", &[]),
    ("warn,[sp{f}]=debug", &[]),
    ("[{f=1}]=debug", &[]),
    ("[sp{f=1}]=trace,error", &[]),
    ("[other]=info,[sp]=trace", &[]),
    // same key twice
    ("warn,app=info,app=trace", &[]),
    ("warn,app=debug,app=error", &[]),
    ("[sp]=info,[sp]=trace", &[]),
    ("[sp]=trace,[sp]=info,error", &[]),
    ("warn,app=info", &["debug"]),
    ("warn,app=trace", &["app=info"]),
    ("[sp]=info", &["[sp]=trace"]),
    ("[sp]=debug,error", &["[sp]=warn", "info", "error"]),
];
fn mk_env(i: usize) -> EnvFilter {
    let (base, added) = ENVS[i];
    let mut f = EnvFilter::try_new(base).unwrap_or_else(|e| panic!("HARNESS: directive string {base:?} does not parse: {e}"));
    for d in added {
        let d: filter::Directive = d.parse().unwrap_or_else(|e| panic!("HARNESS: directive {d:?} does not parse: {e}"));
        f = f.add_directive(d);
    }
    f
}
fn env_desc(i: usize) -> String {
    let (base, added) = ENVS[i];
    let mut s = format!("env({base:?})");
    for d in added {
        s.push_str(&format!(".add_directive({d:?})"));
    }
    s
}
/// every directive the filter was ever given (a replaced one still counts: the real code
/// keeps the most verbose level ever added as its cached maximum)
fn env_all(i: usize) -> String {
    let (base, added) = ENVS[i];
    let mut v = vec![base.to_string()];
    v.extend(added.iter().map(|s| s.to_string()));
    v.join(",")
}

/// what the F14 signature needs to know about a directive of one of the strings above
/// (a reading of the harness's own strings, not of the implementation's state)
#[derive(Clone, Debug)]
struct DirInfo {
    target: Option<String>,
    span: Option<String>,
    field: Option<String>,
    level: usize,
}
fn parse_dirs(s: &str) -> Vec<DirInfo> {
    let mut v = vec![];
    for d in s.split(',') {
        let (head, level) = match d.rsplit_once("]=") {
            Some((h, l)) => (format!("{h}]"), Some(l)),
            None => match d.split_once('=') {
                Some((h, l)) if !d.contains('[') => (h.to_string(), Some(l)),
                _ => (d.to_string(), None),
            },
        };
        let lvl = |l: &str| LEVEL_NAMES.iter().position(|n| n.eq_ignore_ascii_case(l));
        let (head, level) = match level {
            Some(l) => (head, lvl(l).unwrap_or_else(|| panic!("HARNESS: bad level in {d:?}"))),
            None => match lvl(&head) {
                Some(r) => (String::new(), r),
                None => (head, 5),
            },
        };
        let (target, rest) = match head.split_once('[') {
            Some((t, r)) => (t.to_string(), Some(r.trim_end_matches(']').to_string())),
            None => (head.clone(), None),
        };
        let (span, field) = match rest {
            None => (None, None),
            Some(r) => match r.split_once('{') {
                Some((n, f)) => {
                    let f = f.trim_end_matches('}');
                    let fname = f.split('=').next().unwrap().to_string();
                    (if n.is_empty() { None } else { Some(n.to_string()) }, Some(fname))
                }
                None => (if r.is_empty() { None } else { Some(r) }, None),
            },
        };
        v.push(DirInfo {
            target: if target.is_empty() { None } else { Some(target) },
            span,
            field,
            level,
        });
    }
    v
}
/// F14 signature: span callsite, matched by a dynamic directive of this EnvFilter, span
/// level more verbose than that directive's level (narrowed further: more verbose than
/// every dynamic directive of the filter, which is when `enabled` can reject it)
fn f14_sig(env: usize, u: UM) -> bool {
    if !u.span {
        return false;
    }
    let dirs = parse_dirs(&env_all(env));
    let dynamic: Vec<&DirInfo> = dirs.iter().filter(|d| d.span.is_some() || d.field.is_some()).collect();
    let max_dyn = dynamic.iter().map(|d| d.level).max().unwrap_or(0);
    dynamic.iter().any(|d| {
        d.target.as_deref().map_or(true, |t| TARGETS[u.target].starts_with(t))
            && d.span.as_deref().map_or(true, |n| n == um_name(u))
            && d.field.as_deref().map_or(true, |f| f == "id" || (f == "f" && u.has_f))
            && u.level > d.level
    }) && u.level > max_dyn
}

// closure filters: deterministic functions of the metadata (+ the visible current span)
fn tgt_app(m: &Metadata<'_>) -> bool {
    m.target().starts_with("app")
}
fn fn0(m: &Metadata<'_>) -> bool {
    rank(m.level()) <= 3
}
fn fn1(m: &Metadata<'_>) -> bool {
    rank(m.level()) <= 4 && tgt_app(m)
}
fn fn2(m: &Metadata<'_>) -> bool {
    rank(m.level()) <= 2
}
fn fn3(m: &Metadata<'_>) -> bool {
    m.is_span()
}
fn fn4(_: &Metadata<'_>) -> bool {
    false
}
/// (closure, hint) — hints are true upper bounds (exact for 1 and 4, loose for 2)
const FN_HINTS: [Option<usize>; 5] = [None, Some(4), Some(3), None, Some(0)];
const FN_DESC: [&str; 5] = [
    "filter_fn(level<=INFO)",
    "filter_fn(level<=DEBUG && target app*).hint(DEBUG)",
    "filter_fn(level<=WARN).hint(INFO)",
    "filter_fn(is_span)",
    "filter_fn(false).hint(OFF)",
];
fn mk_fn(i: usize) -> filter::FilterFn {
    let f: fn(&Metadata<'_>) -> bool = [fn0, fn1, fn2, fn3, fn4][i];
    let ff = filter::FilterFn::new(f);
    match FN_HINTS[i] {
        Some(h) => ff.with_max_level_hint(filter_of(h)),
        None => ff,
    }
}

fn in_sp<C: Cb>(cx: &Context<'_, C>) -> bool {
    cx.lookup_current().map(|s| s.name() == "sp").unwrap_or(false)
}
fn d0<C: Cb>(m: &Metadata<'_>, cx: &Context<'_, C>) -> bool {
    rank(m.level()) <= if in_sp(cx) { 5 } else { 2 }
}
fn d1<C: Cb>(m: &Metadata<'_>, cx: &Context<'_, C>) -> bool {
    rank(m.level()) <= if in_sp(cx) { 4 } else { 1 }
}
fn d3<C: Cb>(m: &Metadata<'_>, cx: &Context<'_, C>) -> bool {
    tgt_app(m) && rank(m.level()) <= if in_sp(cx) { 3 } else { 1 }
}
fn d4<C: Cb>(m: &Metadata<'_>, _: &Context<'_, C>) -> bool {
    rank(m.level()) <= 3
}
fn d5<C: Cb>(_: &Metadata<'_>, cx: &Context<'_, C>) -> bool {
    in_sp(cx)
}
fn cs2(m: &'static Metadata<'static>) -> Interest {
    match rank(m.level()) {
        1 => Interest::always(),
        2..=4 => Interest::sometimes(),
        _ => Interest::never(),
    }
}
fn cs3(m: &'static Metadata<'static>) -> Interest {
    if !tgt_app(m) {
        return Interest::never();
    }
    match rank(m.level()) {
        1 => Interest::always(),
        2..=3 => Interest::sometimes(),
        _ => Interest::never(),
    }
}
fn cs4(m: &'static Metadata<'static>) -> Interest {
    if rank(m.level()) <= 3 {
        Interest::always()
    } else {
        Interest::never()
    }
}
fn cs5(_: &'static Metadata<'static>) -> Interest {
    Interest::sometimes()
}
const DYN_DESC: [&str; 6] = [
    "dyn_fn(level <= (in sp ? TRACE : WARN))",
    "dyn_fn(level <= (in sp ? DEBUG : ERROR)).hint(DEBUG)",
    "dyn_fn(level <= (in sp ? DEBUG : ERROR)).callsite(ERROR:always, <=DEBUG:sometimes, else never)",
    "dyn_fn(app* && level <= (in sp ? INFO : ERROR)).callsite(!app:never, ERROR:always, <=INFO:sometimes, else never).hint(INFO)",
    "dyn_fn(level<=INFO).callsite(<=INFO:always, else never).hint(TRACE)",
    "dyn_fn(in sp).callsite(sometimes)",
];
fn mk_dyn<C: Cb>(i: usize) -> filter::DynFilterFn<C> {
    type E<C> = fn(&Metadata<'_>, &Context<'_, C>) -> bool;
    type R = fn(&'static Metadata<'static>) -> Interest;
    let (f, cs, hint): (E<C>, Option<R>, Option<usize>) = match i {
        0 => (d0::<C>, None, None),
        1 => (d1::<C>, None, Some(4)),
        2 => (d1::<C>, Some(cs2), None),
        3 => (d3::<C>, Some(cs3), Some(3)),
        4 => (d4::<C>, Some(cs4), Some(5)),
        _ => (d5::<C>, Some(cs5), None),
    };
    let mut d = filter::DynFilterFn::new(f);
    if let Some(cs) = cs {
        d = d.with_callsite_filter(cs);
    }
    if let Some(h) = hint {
        d = d.with_max_level_hint(filter_of(h));
    }
    d
}

// ---------------------------------------------------------------------------------------
// specs

#[derive(Clone, Debug, PartialEq, Eq, Hash)]
enum FE {
    Level(usize),
    Targets(usize),
    Env(usize),
    Fn(usize),
    Dyn(usize),
    NoneF,
    SomeF(Box<FE>),
    Not(Box<FE>),
    Reload(Box<FE>),
    And(Box<FE>, Box<FE>),
    Or(Box<FE>, Box<FE>),
}
impl FE {
    fn desc(&self) -> String {
        match self {
            FE::Level(r) => format!("LevelFilter::{}", LEVEL_NAMES[*r]),
            FE::Targets(i) => targets_desc(*i),
            FE::Env(i) => env_desc(*i),
            FE::Fn(i) => FN_DESC[*i].to_string(),
            FE::Dyn(i) => DYN_DESC[*i].to_string(),
            FE::NoneF => "None".into(),
            FE::SomeF(x) => format!("Some({})", x.desc()),
            FE::Not(x) => format!("not({})", x.desc()),
            FE::Reload(x) => format!("reload({})", x.desc()),
            FE::And(a, b) => format!("and({}, {})", a.desc(), b.desc()),
            FE::Or(a, b) => format!("or({}, {})", a.desc(), b.desc()),
        }
    }
    fn envs(&self, out: &mut Vec<usize>) {
        match self {
            FE::Env(i) => out.push(*i),
            FE::SomeF(x) | FE::Not(x) | FE::Reload(x) => x.envs(out),
            FE::And(a, b) | FE::Or(a, b) => {
                a.envs(out);
                b.envs(out);
            }
            _ => {}
        }
    }
    fn kinds(&self, out: &mut std::collections::BTreeSet<&'static str>) {
        out.insert(match self {
            FE::Level(_) => "LevelFilter",
            FE::Targets(i) => {
                if *i >= 13 {
                    "Targets(parsed, with a field-name directive)"
                } else if *i >= 5 {
                    "Targets(key added twice)"
                } else {
                    "Targets"
                }
            }
            FE::Env(i) => {
                let e = env_all(*i);
                if *i >= 12 {
                    "EnvFilter(key added twice)"
                } else if e.contains('{') && e.contains("f=") {
                    "EnvFilter(value)"
                } else if e.contains('[') {
                    "EnvFilter(span)"
                } else {
                    "EnvFilter(static)"
                }
            }
            FE::Fn(i) => {
                if FN_HINTS[*i].is_some() {
                    "FilterFn+hint"
                } else {
                    "FilterFn"
                }
            }
            FE::Dyn(i) => ["DynFilterFn", "DynFilterFn+hint", "DynFilterFn+callsite", "DynFilterFn+callsite+hint", "DynFilterFn+callsite+hint", "DynFilterFn+callsite"][*i],
            FE::NoneF => "Option::None",
            FE::SomeF(_) => "Option::Some",
            FE::Not(_) => "not",
            FE::Reload(_) => "reload",
            FE::And(..) => "and",
            FE::Or(..) => "or",
        });
        match self {
            FE::SomeF(x) | FE::Not(x) | FE::Reload(x) => x.kinds(out),
            FE::And(a, b) | FE::Or(a, b) => {
                a.kinds(out);
                b.kinds(out);
            }
            _ => {}
        }
    }
}
fn bx(f: FE) -> Box<FE> {
    Box::new(f)
}

fn all_leaves() -> Vec<FE> {
    let mut v = vec![];
    v.extend((0..6).map(FE::Level));
    v.extend((0..TARGET_TABLES.len()).map(FE::Targets));
    v.extend((0..ENVS.len()).map(FE::Env));
    v.extend((0..5).map(FE::Fn));
    v.extend((0..6).map(FE::Dyn));
    v.push(FE::NoneF);
    v
}
/// all leaves but seven near-duplicates and all but four of the same-key-twice leaves (32 leaves)
fn wide_leaves() -> Vec<FE> {
    let drop = [FE::Level(2), FE::Level(4), FE::Targets(1), FE::Env(1), FE::Env(7), FE::Fn(0), FE::Dyn(4)];
    // of the "same key twice" leaves only four go into the depth-2 alphabet (all of them are in the depth-1 one)
    let keep_dup = [FE::Targets(5), FE::Targets(7), FE::Env(16), FE::Env(18)];
    all_leaves()
        .into_iter()
        .filter(|l| !drop.contains(l))
        .filter(|l| match l {
            FE::Targets(i) if *i >= 5 => keep_dup.contains(l),
            FE::Env(i) if *i >= 12 => keep_dup.contains(l),
            _ => true,
        })
        .collect()
}
fn core_leaves() -> Vec<FE> {
    vec![
        FE::Level(3), FE::Level(0), FE::Targets(2), FE::Env(2), FE::Env(6), FE::Env(9),
        FE::Fn(1), FE::Fn(3), FE::Dyn(0), FE::Dyn(3), FE::NoneF, FE::Env(10),
        // same key added twice, the second time more verbose (by builder call)
        FE::Targets(5), FE::Env(16),
    ]
}
fn mid_leaves() -> Vec<FE> {
    let mut v = core_leaves();
    v.extend([FE::Level(1), FE::Level(5), FE::Targets(3), FE::Env(5), FE::Env(8), FE::Fn(2), FE::Dyn(1), FE::Dyn(2)]);
    v
}
fn small_leaves() -> Vec<FE> {
    vec![FE::Level(3), FE::Env(6), FE::Fn(1), FE::Dyn(3), FE::NoneF, FE::Targets(2)]
}

/// global (non-per-layer) filter layers
#[derive(Clone, Debug, PartialEq, Eq, Hash)]
enum GE {
    Level(usize),
    Targets(usize),
    Env(usize),
    Fn(usize),
    Dyn(usize),
}
impl GE {
    fn desc(&self) -> String {
        match self {
            GE::Level(r) => format!("global LevelFilter::{}", LEVEL_NAMES[*r]),
            GE::Targets(i) => format!("global {}", targets_desc(*i)),
            GE::Env(i) => format!("global {}", env_desc(*i)),
            GE::Fn(i) => format!("global {}", FN_DESC[*i]),
            GE::Dyn(i) => format!("global {}", DYN_DESC[*i]),
        }
    }
}

#[derive(Clone, Debug, PartialEq, Eq, Hash)]
enum LS {
    Rec,
    NoneL,
    Flt(FE),
    Glob(GE),
    SomeL(Box<LS>),
    VecL(Vec<LS>),
    AndThen(Box<LS>, Box<LS>),
    FltTree(Box<LS>, FE),
}
impl LS {
    fn desc(&self) -> String {
        match self {
            LS::Rec => "rec".into(),
            LS::NoneL => "None".into(),
            LS::Flt(f) => format!("rec.with_filter({})", f.desc()),
            LS::Glob(g) => g.desc(),
            LS::SomeL(x) => format!("Some({})", x.desc()),
            LS::VecL(v) => format!("vec![{}]", v.iter().map(|x| x.desc()).collect::<Vec<_>>().join(", ")),
            LS::AndThen(a, b) => format!("({}).and_then({})", a.desc(), b.desc()),
            LS::FltTree(x, f) => format!("({}).with_filter({})", x.desc(), f.desc()),
        }
    }
    fn envs(&self, out: &mut Vec<usize>) {
        match self {
            LS::Flt(f) => f.envs(out),
            LS::Glob(GE::Env(i)) => out.push(*i),
            LS::SomeL(x) => x.envs(out),
            LS::VecL(v) => v.iter().for_each(|x| x.envs(out)),
            LS::AndThen(a, b) => {
                a.envs(out);
                b.envs(out);
            }
            LS::FltTree(x, f) => {
                x.envs(out);
                f.envs(out);
            }
            _ => {}
        }
    }
    fn has_empty_vec(&self) -> bool {
        match self {
            LS::VecL(v) => v.is_empty() || v.iter().any(|x| x.has_empty_vec()),
            LS::SomeL(x) | LS::FltTree(x, _) => x.has_empty_vec(),
            LS::AndThen(a, b) => a.has_empty_vec() || b.has_empty_vec(),
            _ => false,
        }
    }
    /// does a `Vec` hold a global filter layer next to at least one other layer?
    fn has_vec_with_global(&self) -> bool {
        fn has_glob(l: &LS) -> bool {
            match l {
                LS::Glob(_) => true,
                LS::SomeL(x) => has_glob(x),
                LS::VecL(v) => v.iter().any(has_glob),
                LS::AndThen(a, b) => has_glob(a) || has_glob(b),
                LS::FltTree(x, _) => has_glob(x),
                _ => false,
            }
        }
        match self {
            LS::VecL(v) => (v.len() >= 2 && v.iter().any(has_glob)) || v.iter().any(|x| x.has_vec_with_global()),
            LS::SomeL(x) | LS::FltTree(x, _) => x.has_vec_with_global(),
            LS::AndThen(a, b) => a.has_vec_with_global() || b.has_vec_with_global(),
            _ => false,
        }
    }
    fn has_glob(&self) -> bool {
        match self {
            LS::Glob(_) => true,
            LS::SomeL(x) | LS::FltTree(x, _) => x.has_glob(),
            LS::VecL(v) => v.iter().any(|x| x.has_glob()),
            LS::AndThen(a, b) => a.has_glob() || b.has_glob(),
            _ => false,
        }
    }
    /// a `.with_filter(..)` tree that wraps a global filter layer
    fn has_global_in_filtered(&self) -> bool {
        match self {
            LS::FltTree(x, _) => x.has_glob(),
            LS::SomeL(x) => x.has_global_in_filtered(),
            LS::VecL(v) => v.iter().any(|x| x.has_global_in_filtered()),
            LS::AndThen(a, b) => a.has_global_in_filtered() || b.has_global_in_filtered(),
            _ => false,
        }
    }
    /// would this layer answer the (crate-private) "I am a None layer" downcast?
    fn answers_none_marker(&self) -> bool {
        match self {
            LS::NoneL => true,
            LS::SomeL(x) => x.answers_none_marker(),
            LS::VecL(v) => v.iter().any(|x| x.answers_none_marker()),
            LS::AndThen(a, b) => a.answers_none_marker() || b.answers_none_marker(),
            _ => false,
        }
    }
    /// a Vec (>= 2 members) or and_then tree with a member that answers the None marker
    fn has_none_in_composite(&self) -> bool {
        match self {
            LS::VecL(v) => (v.len() >= 2 && v.iter().any(|x| x.answers_none_marker())) || v.iter().any(|x| x.has_none_in_composite()),
            LS::AndThen(a, b) => a.answers_none_marker() || b.answers_none_marker() || a.has_none_in_composite() || b.has_none_in_composite(),
            LS::SomeL(x) | LS::FltTree(x, _) => x.has_none_in_composite(),
            _ => false,
        }
    }
    fn shape(&self, out: &mut std::collections::BTreeSet<&'static str>) {
        out.insert(match self {
            LS::Rec => "unfiltered",
            LS::NoneL => "None",
            LS::Flt(_) => "filtered",
            LS::Glob(_) => "global-filter",
            LS::SomeL(_) => "Some",
            LS::VecL(v) => {
                if v.is_empty() {
                    "Vec(empty)"
                } else {
                    "Vec"
                }
            }
            LS::AndThen(..) => "and_then",
            LS::FltTree(..) => "filtered-tree",
        });
        match self {
            LS::SomeL(x) | LS::FltTree(x, _) => x.shape(out),
            LS::VecL(v) => v.iter().for_each(|x| x.shape(out)),
            LS::AndThen(a, b) => {
                a.shape(out);
                b.shape(out);
            }
            _ => {}
        }
    }
    fn uses_filtered(&self) -> bool {
        match self {
            LS::Flt(_) | LS::FltTree(..) => true,
            LS::SomeL(x) => x.uses_filtered(),
            LS::VecL(v) => v.iter().any(|x| x.uses_filtered()),
            LS::AndThen(a, b) => a.uses_filtered() || b.uses_filtered(),
            _ => false,
        }
    }
}

#[derive(Clone, Copy, Debug, PartialEq, Eq, Hash)]
enum Base {
    Reg,
    Plain(usize),
}
#[derive(Clone, Debug, PartialEq, Eq, Hash)]
struct StackSpec {
    base: Base,
    layers: Vec<LS>,
}
impl StackSpec {
    fn desc(&self) -> String {
        let b = match self.base {
            Base::Reg => "Registry".to_string(),
            Base::Plain(p) => {
                let s = PSPECS[p];
                format!(
                    "plain_collector(level<={}{}, hint {})",
                    LEVEL_NAMES[s.thresh],
                    if s.dynamic { ", sometimes" } else { "" },
                    hname(s.hint)
                )
            }
        };
        let mut s = b;
        for l in &self.layers {
            s.push_str(&format!(".with({})", l.desc()));
        }
        s
    }
    fn envs(&self) -> Vec<usize> {
        let mut v = vec![];
        self.layers.iter().for_each(|l| l.envs(&mut v));
        v.sort();
        v.dedup();
        v
    }
}

// ---------------------------------------------------------------------------------------
// builders

struct BuildEnv {
    sh: Arc<Shared>,
    spies: RefCell<Vec<Arc<SpyLog>>>,
    next_rec: Cell<u8>,
    direct: bool,
    top: RefCell<Option<Arc<SpyLog>>>,
}

fn build_f<C: Cb>(fe: &FE) -> BF<C> {
    match fe {
        FE::Level(r) => Box::new(filter_of(*r)),
        FE::Targets(i) => Box::new(mk_targets(*i)),
        FE::Env(i) => Box::new(mk_env(*i)),
        FE::Fn(i) => Box::new(mk_fn(*i)),
        FE::Dyn(i) => Box::new(mk_dyn::<C>(*i)),
        FE::NoneF => Box::new(None::<BF<C>>),
        FE::SomeF(x) => Box::new(Some(build_f::<C>(x))),
        FE::Not(x) => Box::new(FilterExt::<C>::not(build_f::<C>(x))),
        FE::Reload(x) => {
            let (s, _handle) = reload::Subscriber::new(build_f::<C>(x));
            Box::new(s)
        }
        FE::And(a, b) => Box::new(FilterExt::<C>::and(build_f::<C>(a), build_f::<C>(b))),
        FE::Or(a, b) => Box::new(FilterExt::<C>::or(build_f::<C>(a), build_f::<C>(b))),
    }
}
fn build_g<C: Cb>(g: &GE) -> BS<C> {
    match g {
        GE::Level(r) => Box::new(filter_of(*r)),
        GE::Targets(i) => Box::new(mk_targets(*i)),
        GE::Env(i) => Box::new(mk_env(*i)),
        GE::Fn(i) => Box::new(mk_fn(*i)),
        GE::Dyn(i) => Box::new(mk_dyn::<C>(*i)),
    }
}
fn spy_f<C: Cb>(fe: &FE, env: &BuildEnv) -> Spy<C> {
    let mut envs = vec![];
    fe.envs(&mut envs);
    let log = SpyLog::new(fe.desc(), "filter", envs);
    env.spies.borrow_mut().push(log.clone());
    Spy {
        inner: build_f::<C>(fe),
        log,
        sh: env.sh.clone(),
        direct: env.direct,
    }
}
fn new_rec(env: &BuildEnv) -> Rec {
    let i = env.next_rec.get();
    assert!(i < PLAIN_IDX, "HARNESS: too many recording layers");
    env.next_rec.set(i + 1);
    Rec {
        idx: i,
        sh: env.sh.clone(),
    }
}
fn build_layer<C: Cb>(l: &LS, env: &BuildEnv) -> BS<C> {
    match l {
        LS::Rec => Box::new(new_rec(env)),
        LS::NoneL => Box::new(None::<BS<C>>),
        LS::Flt(fe) => {
            let rec = new_rec(env);
            let spy = spy_f::<C>(fe, env);
            if env.direct {
                // direct registration pass on the leaked universe, before any dynamic call
                spy.direct_register();
            }
            Box::new(filter::Filtered::<Rec, Spy<C>, C>::new(rec, spy))
        }
        LS::Glob(g) => {
            let envs = if let GE::Env(i) = g { vec![*i] } else { vec![] };
            let log = SpyLog::new(g.desc(), "global filter layer", envs);
            env.spies.borrow_mut().push(log.clone());
            Box::new(GlobSpy {
                inner: build_g::<C>(g),
                log,
                sh: env.sh.clone(),
            })
        }
        LS::SomeL(x) => Box::new(Some(build_layer::<C>(x, env))),
        LS::VecL(v) => Box::new(v.iter().map(|x| build_layer::<C>(x, env)).collect::<Vec<BS<C>>>()),
        LS::AndThen(a, b) => {
            let a = build_layer::<C>(a, env);
            let b = build_layer::<C>(b, env);
            Box::new(Subscribe::<C>::and_then(a, b))
        }
        LS::FltTree(x, fe) => {
            let inner = build_layer::<C>(x, env);
            let spy = spy_f::<C>(fe, env);
            Box::new(filter::Filtered::<BS<C>, Spy<C>, C>::new(inner, spy))
        }
    }
}

fn finish_top<C: Cb>(c: C, env: &BuildEnv) -> Dispatch {
    let log = SpyLog::new("whole stack".into(), "stack", vec![]);
    *env.top.borrow_mut() = Some(log.clone());
    Dispatch::new(Top {
        inner: c,
        log,
        sh: env.sh.clone(),
    })
}
macro_rules! ladder {
    ($name:ident, $next:ident) => {
        fn $name<C: Cb>(c: C, rest: &[LS], env: &BuildEnv) -> Dispatch {
            match rest.split_first() {
                None => finish_top(c, env),
                Some((l, rest)) => {
                    let layer: BS<C> = build_layer::<C>(l, env);
                    $next(c.with(layer), rest, env)
                }
            }
        }
    };
}
ladder!(lad0, lad1);
ladder!(lad1, lad2);
ladder!(lad2, lad3);
ladder!(lad3, lad4);
fn lad4<C: Cb>(c: C, rest: &[LS], env: &BuildEnv) -> Dispatch {
    assert!(rest.is_empty(), "HARNESS: stack spec longer than the type ladder");
    finish_top(c, env)
}
const MAX_LIST: usize = 4;

fn build_stack(spec: &StackSpec, env: &BuildEnv) -> Dispatch {
    match spec.base {
        Base::Reg => lad0(Registry::default(), &spec.layers, env),
        Base::Plain(p) => {
            assert!(!spec.layers.iter().any(|l| l.uses_filtered()), "HARNESS: per-layer filter on the plain collector");
            lad0(
                Plain {
                    spec: PSPECS[p],
                    sh: env.sh.clone(),
                },
                &spec.layers,
                env,
            )
        }
    }
}
