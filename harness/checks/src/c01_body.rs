// C01 body, included by checks/src/bin/c01.rs (CAP = 5) and c01cap/src/main.rs (CAP = 3).
//
// Sequential multi-thread histories over {New, Drop, Install, Uninstall, Emit, Probe,
// Rebuild, Flip, Refilter}; oracle: delivery <=> accept(filter of the emitting thread's
// current collector) at that moment (and level <= compile-time cap).

use std::cell::RefCell;
use std::sync::atomic::Ordering;
use std::sync::Arc;
use std::time::Instant;
use tracing_core::dispatch::{DefaultGuard, Dispatch};
use vcs::{Emitted, Fresh, Kind};
use vlib::exec::Workers;
use vlib::rec::{FilterCollector, Got, Spec};
use vlib::run::{self, Finish};
use vlib::{json, Args, ChildSpec, Map, Mode, Out, Rng, Value};

const ID: &str = if CAP == 5 { "C01" } else { "C01" };

thread_local! {
    static GUARDS: RefCell<Vec<DefaultGuard>> = const { RefCell::new(Vec::new()) };
}

fn main() {
    let args = run::parse_args();
    match args.mode.clone() {
        Mode::Parent => parent(&args),
        Mode::Child(_) => child(&args),
        Mode::Replay(p) => run::replay(ID, &p),
    }
}

fn parent(args: &Args) {
    let t0 = Instant::now();
    let mut out = Out::new();
    let shards = args.get_u64("shards", args.tier.pick(64, 1280));
    let spec = ChildSpec::new("hist", shards)
        .arg("hist", args.get_u64("hist", 200))
        .timeout(300);
    let ends = run::run_children(args, &spec, &mut out);
    run::classify_ends(&ends, &mut out, true);
    if CAP_BUILD {
        // cap build: print the merged result for the driver (c01 parent merges it)
        out.emit();
        std::process::exit(0);
    }
    // thorough: also the compile-time-capped build (separate binary, see check script)
    let mut extra = Map::new();
    // (2nd entry: only the debug-build feature `max_level_warn` is set; "this level is configured
    // separately for release and debug builds", so the release build is not capped at all)
    for (var, key, what) in [
        ("VERIF_C01CAP_BIN", "compile_time_cap_build", "INFO (features max_level_info + release_max_level_info)"),
        ("VERIF_C01CAP2_BIN", "debug_only_cap_feature_in_a_release_build", "none: feature max_level_warn alone does not cap a release build"),
    ] {
    if let Ok(p) = std::env::var(var) {
        let mut cap_out = Out::new();
        let o = std::process::Command::new(&p)
            .args([
                args.tier.name(),
                "--seed",
                &args.seed.to_string(),
                &format!("shards={}", args.tier.pick(16, 160)),
            ])
            .output();
        match o {
            Ok(o) => {
                let so = String::from_utf8_lossy(&o.stdout);
                let mut got = false;
                for l in so.lines() {
                    if let Some(js) = l.strip_prefix("RESULT ") {
                        if let Ok(v) = serde_json::from_str::<Value>(js) {
                            cap_out.merge_json(&v);
                            got = true;
                        }
                    }
                }
                if !got {
                    out.harness_errors
                        .push(format!("c01cap produced no result: {}", String::from_utf8_lossy(&o.stderr)));
                }
            }
            Err(e) => out.harness_errors.push(format!("cannot run c01cap: {e}")),
        }
        extra.insert(
            key.into(),
            json!({"cap": what,
                   "evaluations": cap_out.evals, "distinct": cap_out.distinct.len(),
                   "counters": cap_out.counters}),
        );
        // fold violations / findings of the cap build into this verdict
        let capv = cap_out.to_json();
        let evals = out.evals;
        out.merge_json(&json!({"viols": capv["viols"], "known": capv["known"], "inconclusive": capv["inconclusive"], "harness_errors": capv["harness_errors"]}));
        out.evals = evals + cap_out.evals;
        for h in cap_out.distinct {
            out.distinct.insert(h ^ 0x5555_5555);
        }
    }
    }
    run::finish(
        Finish {
            id: ID,
            args,
            t0,
            rule: "sequential histories over {New(F),Drop,Install,Uninstall,Emit,Probe,Rebuild,Flip,Refilter} on 1-3 threads, \
                   fresh static macro callsites drawn per history; evaluations = emissions+probes judged; \
                   non-trivial = emission that is a first hit of its callsite, or made while >=2 live collectors disagree about it; \
                   distinct = distinct (sorted live filters, current filter, level, target, kind, first-hit?) tuples among those",
            assumptions: vec![
                "recording collectors are self-consistent by construction (static ones never change their answer without rebuild_interest_cache; hints are true upper bounds)".into(),
                "no global default is ever set in these processes; recorders never emit from callbacks".into(),
                "histories are sequential (one op at a time); racing is C04's".into(),
            ],
            min_evals: 1000,
            min_distinct: 100,
            exhaustive: false,
            extra,
        },
        out,
    );
}

struct CState {
    arc: Arc<FilterCollector>,
    handle: Option<Dispatch>,
    installed: usize,
}
impl CState {
    fn alive(&self) -> bool {
        self.handle.is_some() || self.installed > 0
    }
}

fn gen_spec(rng: &mut Rng) -> Spec {
    let thresh = [0, 1, 2, 3, 3, 4, 4, 5, 5, 5][rng.usize(10)];
    let targets = match rng.below(10) {
        0..=3 => 0b1111,
        4 => 0,
        _ => rng.below(16) as u8,
    };
    let dynamic = rng.chance(2, 5);
    let hint = if rng.bool() {
        None
    } else {
        Some(thresh + rng.usize(6 - thresh))
    };
    Spec {
        thresh,
        targets,
        dynamic,
        hint,
    }
}

fn child(args: &Args) {
    let nh = args.get_u64("hist", 200);
    let only = args.get("only").and_then(|s| s.parse::<u64>().ok());
    let fresh = Fresh::new();
    let mut used: Vec<&'static vcs::Cs> = vec![];
    let mut out = Out::new();
    let mut next_cid = 1u64;
    let mut next_op = 1u64;
    for h in 0..nh {
        let mut rng = Rng::derive(args.seed, args.shard, h);
        let r = history(
            &mut rng, &fresh, &mut used, &mut out, &mut next_cid, &mut next_op, args, h,
        );
        // (from_static registrations never expire: from here on the slots reject everything)
        vlib::rec::static_clear();
        if let Err((what, w)) = r {
            out.violation(what, w);
            // after a violation the process-wide caches may be in an unknown state; stop
            break;
        }
        if only == Some(h) {
            break;
        }
    }
    out.emit();
}

#[allow(clippy::too_many_arguments)]
fn history(
    rng: &mut Rng,
    fresh: &Fresh,
    used: &mut Vec<&'static vcs::Cs>,
    out: &mut Out,
    next_cid: &mut u64,
    next_op: &mut u64,
    args: &Args,
    hidx: u64,
) -> Result<(), (String, Value)> {
    let nthreads = 1 + rng.usize(3);
    let workers = Workers::new(nthreads);
    let mut cols: Vec<CState> = vec![];
    let mut stacks: Vec<Vec<usize>> = vec![vec![]; nthreads];
    let nops = 12 + rng.usize(29);
    let mut ops: Vec<String> = vec![];
    let mut zused = 0usize;
    out.count("histories", 1);

    let witness = |ops: &Vec<String>, extra: Value| -> Value {
        json!({"history_index": hidx, "shard": args.shard, "threads": nthreads, "ops": ops, "detail": extra,
               "replay_hint": "re-run the child with only=<history_index> to stop right after it"})
    };

    for _ in 0..nops {
        let live: Vec<usize> = (0..cols.len()).filter(|&i| cols[i].alive()).collect();
        let handles: Vec<usize> = (0..cols.len()).filter(|&i| cols[i].handle.is_some()).collect();
        let dyns: Vec<usize> = live.iter().copied().filter(|&i| cols[i].arc.dynamic).collect();
        let mut t = rng.usize(nthreads);
        // bias emitting threads toward those that have a current collector
        if stacks[t].is_empty() && rng.chance(2, 3) {
            if let Some(t2) = (0..nthreads).find(|&x| !stacks[x].is_empty()) {
                t = t2;
            }
        }
        let w = [
            if live.len() < 4 { 5 } else { 0 },                       // 0 New
            if handles.is_empty() { 0 } else { 2 },                   // 1 Drop
            if handles.is_empty() || stacks[t].len() >= 3 { 0 } else { 8 }, // 2 Install
            if stacks[t].is_empty() { 0 } else { 2 },                 // 3 Uninstall
            14,                                                       // 4 Emit
            3,                                                        // 5 Probe
            1,                                                        // 6 Rebuild
            if dyns.is_empty() { 0 } else { 3 },                      // 7 Flip
            if live.is_empty() { 0 } else { 2 },                      // 8 Refilter
        ];
        match rng.weighted(&w) {
            0 => {
                let spec = gen_spec(rng);
                let flag = rng.bool();
                let cid = *next_cid;
                *next_cid += 1;
                let arc = Arc::new(FilterCollector::new(cid, spec, flag));
                let a2 = arc.clone();
                // a quarter of the histories also use `Dispatch::from_static` over zero-sized
                // collectors that live in statics (three distinct types, possibly one address)
                let as_static = hidx % 4 == 1 && zused < 3 && rng.chance(1, 2);
                let d = if as_static {
                    let k = zused;
                    zused += 1;
                    out.count("collectors_in_zero_sized_statics(Dispatch::from_static)", 1);
                    workers.run(t, move || vlib::rec::static_dispatch(k, a2))
                } else {
                    workers.run(t, move || vlib::rec::dispatch_of(a2, cid))
                }
                .map_err(|p| ("panic in Dispatch::new".to_string(), witness(&ops, json!({"panic": p}))))?;
                ops.push(format!(
                    "New(t{t}, c{} = {} flag={flag}, {})",
                    cols.len(),
                    spec.code(),
                    if as_static { format!("Dispatch::from_static(&Z{}) zero-sized static", zused - 1) } else { format!("handed to Dispatch::new as {}", vlib::rec::DISPATCH_HOW[(cid % 4) as usize]) }
                ));
                cols.push(CState {
                    arc,
                    handle: Some(d),
                    installed: 0,
                });
            }
            1 => {
                let i = *rng.pick(&handles);
                ops.push(format!("Drop(c{i})"));
                let d = cols[i].handle.take();
                workers
                    .run(t, move || drop(d))
                    .map_err(|p| ("panic dropping a Dispatch".to_string(), witness(&ops, json!({"panic": p}))))?;
            }
            2 => {
                let i = *rng.pick(&handles);
                ops.push(format!("Install(t{t}, c{i})"));
                let d = cols[i].handle.clone().unwrap();
                workers
                    .run(t, move || {
                        let g = tracing_core::dispatch::set_default(&d);
                        GUARDS.with(|gs| gs.borrow_mut().push(g));
                    })
                    .map_err(|p| ("panic in set_default".to_string(), witness(&ops, json!({"panic": p}))))?;
                cols[i].installed += 1;
                stacks[t].push(i);
            }
            3 => {
                let i = stacks[t].pop().unwrap();
                ops.push(format!("Uninstall(t{t}) [was c{i}]"));
                workers
                    .run(t, move || {
                        let g = GUARDS.with(|gs| gs.borrow_mut().pop());
                        drop(g);
                    })
                    .map_err(|p| ("panic dropping a DefaultGuard".to_string(), witness(&ops, json!({"panic": p}))))?;
                cols[i].installed -= 1;
            }
            k @ (4 | 5) => {
                let probe = k == 5;
                let level = 1 + rng.usize(5);
                let target = rng.usize(4);
                let kind = if probe {
                    Kind::Probe
                } else if rng.chance(2, 5) {
                    Kind::Span
                } else {
                    Kind::Event
                };
                // fresh copy (first hit) or a callsite this process has hit before
                let reuse: Vec<&'static vcs::Cs> = if rng.chance(1, 2) {
                    used.iter().copied().filter(|c| c.kind == kind).collect()
                } else {
                    vec![]
                };
                let (cs, first_hit) = if !reuse.is_empty() {
                    (*rng.pick(&reuse), false)
                } else if let Some(c) = (if kind == Kind::Span && rng.chance(1, 3) { fresh.take_root_span(level, target) } else { None }).or_else(|| fresh.take(level, target, kind)) {
                    // (a third of the span callsites are written `span!(parent: None, ..)`: the
                    // macro's explicit-parent arm)
                    if c.idx >= vcs::POOL.len() {
                        out.count("span_callsites_with_explicit_parent_hit_first", 1);
                    }
                    used.push(c);
                    (c, true)
                } else {
                    let same: Vec<&'static vcs::Cs> =
                        used.iter().copied().filter(|c| c.kind == kind).collect();
                    (*rng.pick(&same), false)
                };
                let (level, target) = (cs.level, cs.target);
                let opid = *next_op;
                *next_op += 1;
                ops.push(format!(
                    "{}(t{t}, #{} {:?} {} {} first_hit={first_hit}) op{opid}",
                    if probe { "Probe" } else { "Emit" },
                    cs.idx,
                    cs.kind,
                    vcs::LEVEL_NAMES[level],
                    vcs::TARGETS[target]
                ));
                let cur = stacks[t].last().copied();
                let expected = match cur {
                    None => false,
                    Some(i) => {
                        let sp = cols[i].arc.spec();
                        sp.accepts(level, target)
                            && (!sp.dynamic || cols[i].arc.flag.load(Ordering::SeqCst))
                            && level <= CAP
                    }
                };
                let emit = cs.emit;
                let res = workers
                    .run(t, move || match emit(opid) {
                        Emitted::Event => (None, None),
                        Emitted::Span(s) => {
                            let d = s.is_disabled();
                            drop(s);
                            (Some(d), None)
                        }
                        Emitted::Probe(b) => (None, Some(b)),
                    })
                    .map_err(|p| ("panic during an emission".to_string(), witness(&ops, json!({"panic": p}))))?;
                // observe
                let mut delivered_to: Vec<(usize, u64)> = vec![];
                for (i, c) in cols.iter().enumerate() {
                    for g in c.arc.take_log() {
                        match g {
                            Got::Event { id, .. } | Got::NewSpan { id, .. } => delivered_to.push((i, id)),
                            _ => {}
                        }
                    }
                }
                out.evals += 1;
                out.count(if probe { "probes" } else { "emissions" }, 1);
                if first_hit {
                    out.count("first_hit", 1);
                }
                out.count(if expected { "expected_accept" } else { "expected_reject" }, 1);
                // non-triviality
                let live_specs: Vec<Spec> =
                    cols.iter().filter(|c| c.alive()).map(|c| c.arc.spec()).collect();
                let acc: Vec<bool> = live_specs.iter().map(|s| s.accepts(level, target)).collect();
                let disagree = acc.iter().any(|&a| a) && acc.iter().any(|&a| !a);
                if disagree {
                    out.count("under_disagreeing_collectors", 1);
                }
                if first_hit || disagree {
                    let mut codes: Vec<String> = live_specs.iter().map(|s| s.code()).collect();
                    codes.sort();
                    let sig = format!(
                        "{codes:?}|{}|{level}|{target}|{:?}|{first_hit}",
                        cur.map(|i| cols[i].arc.spec().code()).unwrap_or_else(|| "-".into()),
                        cs.kind
                    );
                    out.distinct_str(&sig);
                }
                let detail = |msg: &str| {
                    json!({"problem": msg, "op": opid, "expected_delivery": expected,
                           "current": cur.map(|i| format!("c{i} = {} flag={}", cols[i].arc.spec().code(), cols[i].arc.flag.load(Ordering::SeqCst))),
                           "delivered_to": format!("{delivered_to:?}"),
                           "span_disabled": res.0, "probe_result": res.1,
                           "live": cols.iter().enumerate().filter(|(_, c)| c.alive()).map(|(i, c)| format!("c{i}={}", c.arc.spec().code())).collect::<Vec<_>>(),
                           "LevelFilter::current": format!("{}", tracing_core::LevelFilter::current())})
                };
                if probe {
                    if !delivered_to.is_empty() {
                        return Err(("enabled! probe caused a delivery".into(), witness(&ops, detail("probe delivered"))));
                    }
                    if res.1 != Some(expected) {
                        return Err((
                            format!("enabled! returned {:?}, the current collector's filter says {expected}", res.1),
                            witness(&ops, detail("probe answer differs from the filter")),
                        ));
                    }
                } else {
                    let want: Vec<(usize, u64)> = match (expected, cur) {
                        (true, Some(i)) => vec![(i, opid)],
                        _ => vec![],
                    };
                    if delivered_to != want {
                        let what = if delivered_to.is_empty() {
                            "emission suppressed although the current collector's filter accepts it"
                        } else if want.is_empty() {
                            "emission delivered although the current collector's filter rejects it (or there is no current collector)"
                        } else {
                            "emission delivered to the wrong collector / wrong number of times"
                        };
                        return Err((what.into(), witness(&ops, detail(what))));
                    }
                    // (without a current collector the handle belongs to the no-op
                    // collector and is "enabled" by design; only judged with one)
                    if let (Some(dis), Some(_)) = (res.0, cur) {
                        if dis == expected {
                            return Err((
                                "span handle's disabled state disagrees with the filter".into(),
                                witness(&ops, detail("span.is_disabled() != !expected")),
                            ));
                        }
                    }
                }
                if out.samples.len() < 3 && ops.len() > 10 && (first_hit && disagree) {
                    out.sample(json!({"history_prefix": ops.clone(), "expected_delivery": expected, "observed": format!("{delivered_to:?}")}));
                }
                continue;
            }
            6 => {
                ops.push(format!("Rebuild(t{t})"));
                workers
                    .run(t, tracing_core::callsite::rebuild_interest_cache)
                    .map_err(|p| ("panic in rebuild_interest_cache".to_string(), witness(&ops, json!({"panic": p}))))?;
            }
            7 => {
                let i = *rng.pick(&dyns);
                let nv = !cols[i].arc.flag.load(Ordering::SeqCst);
                cols[i].arc.flag.store(nv, Ordering::SeqCst);
                ops.push(format!("Flip(c{i} -> {nv})"));
            }
            _ => {
                let i = *rng.pick(&live);
                let mut spec = gen_spec(rng);
                spec.dynamic = cols[i].arc.dynamic;
                cols[i].arc.refilter(spec);
                ops.push(format!("Refilter(c{i} = {}) + Rebuild(t{t})", spec.code()));
                workers
                    .run(t, tracing_core::callsite::rebuild_interest_cache)
                    .map_err(|p| ("panic in rebuild_interest_cache".to_string(), witness(&ops, json!({"panic": p}))))?;
            }
        }
        // every op except an emission must leave all logs free of deliveries
        for (i, c) in cols.iter().enumerate() {
            let l = c.arc.take_log();
            if l.iter().any(|g| matches!(g, Got::Event { .. } | Got::NewSpan { .. })) {
                return Err((
                    format!("collector c{i} received a delivery during a non-emitting operation"),
                    witness(&ops, json!({"log": format!("{l:?}")})),
                ));
            }
        }
    }
    for (i, c) in cols.iter().enumerate() {
        if c.arc.bad_deliveries.load(Ordering::SeqCst) != 0 {
            return Err((
                format!("collector c{i} was handed an emission its own filter rejects"),
                witness(&ops, json!({})),
            ));
        }
    }
    // unwind
    for t in 0..nthreads {
        while let Some(i) = stacks[t].pop() {
            let _ = workers.run(t, || {
                let g = GUARDS.with(|gs| gs.borrow_mut().pop());
                drop(g);
            });
            cols[i].installed -= 1;
        }
    }
    for c in cols.iter_mut() {
        c.handle = None;
    }
    drop(workers);
    Ok(())
}
