// C14: runtime field values, their generators and the expectation they map to.
//
// Everything here is independent of the code under test: the expectation of a value is
// computed from the Rust value itself (and std's `Display`/`Debug`), never by calling into
// tracing-subscriber / tracing-serde / serde_json.

use std::fmt;
use tracing_core::field::Value;

#[derive(Clone, Copy, PartialEq, Eq, Debug)]
pub enum Slot {
    /// plain `name = value` (value: `&dyn Value`)
    P,
    /// `name = %value`
    D,
    /// `name = ?value`
    G,
}

/// one argument handed to a generated macro call site
pub enum Arg<'a> {
    V(&'a dyn Value),
    D(&'a dyn fmt::Display),
    G(&'a dyn fmt::Debug),
}
impl<'a> Arg<'a> {
    pub fn v(&self) -> &'a dyn Value {
        match self {
            Arg::V(x) => *x,
            _ => panic!("HARNESS: slot kind mismatch (wanted a Value)"),
        }
    }
    pub fn d(&self) -> &'a dyn fmt::Display {
        match self {
            Arg::D(x) => *x,
            _ => panic!("HARNESS: slot kind mismatch (wanted a Display)"),
        }
    }
    pub fn g(&self) -> &'a dyn fmt::Debug {
        match self {
            Arg::G(x) => *x,
            _ => panic!("HARNESS: slot kind mismatch (wanted a Debug)"),
        }
    }
}

/// error with a source chain; Display prints only its own message
#[derive(Clone, Debug)]
pub struct ChainErr {
    pub msg: String,
    pub source: Option<Box<ChainErr>>,
}
impl fmt::Display for ChainErr {
    fn fmt(&self, f: &mut fmt::Formatter<'_>) -> fmt::Result {
        f.write_str(&self.msg)
    }
}
impl std::error::Error for ChainErr {
    fn source(&self) -> Option<&(dyn std::error::Error + 'static)> {
        self.source.as_ref().map(|b| &**b as &(dyn std::error::Error + 'static))
    }
}

/// text written verbatim by both Display and Debug
pub struct RawText<'a>(pub &'a str);
impl fmt::Display for RawText<'_> {
    fn fmt(&self, f: &mut fmt::Formatter<'_>) -> fmt::Result {
        f.write_str(self.0)
    }
}
impl fmt::Debug for RawText<'_> {
    fn fmt(&self, f: &mut fmt::Formatter<'_>) -> fmt::Result {
        f.write_str(self.0)
    }
}

#[derive(Clone)]
pub enum DbgV {
    /// Debug writes the text verbatim (quotes, controls and all)
    Raw(String),
    /// `{:?}` of a `&str` (std escaping)
    Str(String),
    VecStr(Vec<String>),
    OptI(Option<i64>),
    Struct { a: String, b: f64 },
    F(f64),
    Unit,
}
#[allow(dead_code)]
#[derive(Debug)]
struct St<'a> {
    a: &'a str,
    b: f64,
}
impl fmt::Debug for DbgV {
    fn fmt(&self, f: &mut fmt::Formatter<'_>) -> fmt::Result {
        match self {
            DbgV::Raw(s) => f.write_str(s),
            DbgV::Str(s) => write!(f, "{:?}", s.as_str()),
            DbgV::VecStr(v) => write!(f, "{:?}", v),
            DbgV::OptI(o) => write!(f, "{:?}", o),
            DbgV::Struct { a, b } => write!(f, "{:?}", St { a, b: *b }),
            DbgV::F(x) => write!(f, "{:?}", x),
            DbgV::Unit => write!(f, "{:?}", ()),
        }
    }
}

#[derive(Clone, Copy, Debug)]
pub enum Small {
    I8(i8),
    I16(i16),
    I32(i32),
    Isize(isize),
    U8(u8),
    U16(u16),
    U32(u32),
    Usize(usize),
}

pub enum Val {
    Empty,
    /// `&str`
    Str(String),
    /// `String`
    Owned(String),
    I64(i64),
    U64(u64),
    I128(i128),
    U128(u128),
    Small(Small),
    NonZeroU32(std::num::NonZeroU32),
    NonZeroI64(std::num::NonZeroI64),
    Wrapping(std::num::Wrapping<i64>),
    F64(f64),
    F32(f32),
    Bool(bool),
    Bytes(Vec<u8>),
    /// `&(dyn Error + 'static)`
    Err(ChainErr),
    /// `&(dyn Error + Send + Sync + 'static)`
    ErrSS(ChainErr),
    /// `%value` / `field::display(value)`
    Disp(String),
    /// `?value` / `field::debug(value)`
    Dbg(DbgV),
}

impl Val {
    pub fn kind(&self) -> &'static str {
        match self {
            Val::Empty => "empty",
            Val::Str(_) => "str",
            Val::Owned(_) => "string",
            Val::I64(_) => "i64",
            Val::U64(_) => "u64",
            Val::I128(_) => "i128",
            Val::U128(_) => "u128",
            Val::Small(_) => "small_int",
            Val::NonZeroU32(_) | Val::NonZeroI64(_) => "nonzero",
            Val::Wrapping(_) => "wrapping",
            Val::F64(x) => {
                if x.is_finite() {
                    "f64"
                } else {
                    "f64_nonfinite"
                }
            }
            Val::F32(x) => {
                if x.is_finite() {
                    "f32"
                } else {
                    "f32_nonfinite"
                }
            }
            Val::Bool(_) => "bool",
            Val::Bytes(_) => "bytes",
            Val::Err(_) | Val::ErrSS(_) => "error",
            Val::Disp(_) => "display",
            Val::Dbg(_) => "debug",
        }
    }
    pub fn describe(&self) -> String {
        match self {
            Val::Empty => "Empty".into(),
            Val::Str(s) => format!("&str {s:?}"),
            Val::Owned(s) => format!("String {s:?}"),
            Val::I64(x) => format!("{x}i64"),
            Val::U64(x) => format!("{x}u64"),
            Val::I128(x) => format!("{x}i128"),
            Val::U128(x) => format!("{x}u128"),
            Val::Small(s) => format!("{s:?}"),
            Val::NonZeroU32(x) => format!("NonZeroU32({x})"),
            Val::NonZeroI64(x) => format!("NonZeroI64({x})"),
            Val::Wrapping(x) => format!("Wrapping({}i64)", x.0),
            Val::F64(x) => format!("{x:?}f64 (bits {:#018x})", x.to_bits()),
            Val::F32(x) => format!("{x:?}f32 (bits {:#010x})", x.to_bits()),
            Val::Bool(b) => format!("{b}"),
            Val::Bytes(b) => format!("bytes {b:?}"),
            Val::Err(e) => format!("&dyn Error {e:?}"),
            Val::ErrSS(e) => format!("&(dyn Error+Send+Sync) {e:?}"),
            Val::Disp(s) => format!("%Display writing {s:?}"),
            Val::Dbg(d) => format!("?Debug writing {:?}", format!("{d:?}")),
        }
    }
    /// does any text of this value contain a character JSON must escape?
    pub fn has_escape(&self) -> bool {
        let t = match self {
            Val::Str(s) | Val::Owned(s) | Val::Disp(s) => s.clone(),
            Val::Dbg(d) => format!("{d:?}"),
            Val::Err(e) | Val::ErrSS(e) => e.msg.clone(),
            _ => return false,
        };
        needs_escape(&t)
    }
}

/// characters serde_json (and any RFC 8259 writer) must escape inside a string
pub fn needs_escape(s: &str) -> bool {
    s.chars().any(|c| c == '"' || c == '\\' || (c as u32) < 0x20)
}

/// what a value must look like in the JSON output
#[derive(Clone, Debug)]
pub enum Exp {
    Absent,
    /// string equal to one of these
    Str(Vec<String>),
    Int(i128),
    /// 128-bit: decimal text, as a string (or, permissively, as a number with that text)
    Big(String),
    F(f64),
    Bool(bool),
    Bytes(Vec<u8>),
}

pub fn expect(v: &Val) -> Exp {
    match v {
        Val::Empty => Exp::Absent,
        Val::Str(s) | Val::Owned(s) | Val::Disp(s) => Exp::Str(vec![s.clone()]),
        Val::I64(x) => Exp::Int(*x as i128),
        Val::U64(x) => Exp::Int(*x as i128),
        Val::I128(x) => Exp::Big(x.to_string()),
        Val::U128(x) => Exp::Big(x.to_string()),
        Val::Small(s) => Exp::Int(match *s {
            Small::I8(x) => x as i128,
            Small::I16(x) => x as i128,
            Small::I32(x) => x as i128,
            Small::Isize(x) => x as i128,
            Small::U8(x) => x as i128,
            Small::U16(x) => x as i128,
            Small::U32(x) => x as i128,
            Small::Usize(x) => x as i128,
        }),
        Val::NonZeroU32(x) => Exp::Int(x.get() as i128),
        Val::NonZeroI64(x) => Exp::Int(x.get() as i128),
        Val::Wrapping(x) => Exp::Int(x.0 as i128),
        Val::F64(x) => Exp::F(*x),
        Val::F32(x) => Exp::F(*x as f64),
        Val::Bool(b) => Exp::Bool(*b),
        Val::Bytes(b) => Exp::Bytes(b.clone()),
        // "errors -> string equal to the Display/Debug text": accept either rendering
        Val::Err(e) | Val::ErrSS(e) => Exp::Str(vec![format!("{e}"), format!("{e:?}")]),
        Val::Dbg(d) => Exp::Str(vec![format!("{d:?}")]),
    }
}

/// owner of the typed object a call site borrows
pub enum Held<'a> {
    V(Box<dyn Value + 'a>),
    D(Box<dyn fmt::Display + 'a>),
    G(Box<dyn fmt::Debug + 'a>),
}
impl Held<'_> {
    pub fn arg(&self) -> Arg<'_> {
        match self {
            Held::V(b) => Arg::V(&**b),
            Held::D(b) => Arg::D(&**b),
            Held::G(b) => Arg::G(&**b),
        }
    }
    pub fn value(&self) -> &dyn Value {
        match self {
            Held::V(b) => &**b,
            _ => panic!("HARNESS: held object is not a Value"),
        }
    }
}

pub fn hold<'a>(v: &'a Val, slot: Slot) -> Held<'a> {
    match slot {
        Slot::D => match v {
            Val::Disp(s) => Held::D(Box::new(RawText(s))),
            _ => panic!("HARNESS: % slot needs Val::Disp"),
        },
        Slot::G => match v {
            Val::Dbg(d) => Held::G(Box::new(d)),
            _ => panic!("HARNESS: ? slot needs Val::Dbg"),
        },
        Slot::P => Held::V(match v {
            Val::Empty => Box::new(tracing_core::field::Empty),
            Val::Str(s) => Box::new(s.as_str()),
            Val::Owned(s) => Box::new(s.clone()),
            Val::I64(x) => Box::new(*x),
            Val::U64(x) => Box::new(*x),
            Val::I128(x) => Box::new(*x),
            Val::U128(x) => Box::new(*x),
            Val::Small(s) => match *s {
                Small::I8(x) => Box::new(x),
                Small::I16(x) => Box::new(x),
                Small::I32(x) => Box::new(x),
                Small::Isize(x) => Box::new(x),
                Small::U8(x) => Box::new(x),
                Small::U16(x) => Box::new(x),
                Small::U32(x) => Box::new(x),
                Small::Usize(x) => Box::new(x),
            },
            Val::NonZeroU32(x) => Box::new(*x),
            Val::NonZeroI64(x) => Box::new(*x),
            Val::Wrapping(x) => Box::new(*x),
            Val::F64(x) => Box::new(*x),
            Val::F32(x) => Box::new(*x),
            Val::Bool(b) => Box::new(*b),
            Val::Bytes(b) => Box::new(&b[..]),
            Val::Err(e) => Box::new(e as &(dyn std::error::Error + 'static)),
            Val::ErrSS(e) => Box::new(e as &(dyn std::error::Error + Send + Sync + 'static)),
            Val::Disp(s) => Box::new(tracing_core::field::display(RawText(s))),
            Val::Dbg(d) => Box::new(tracing_core::field::debug(d)),
        }),
    }
}

