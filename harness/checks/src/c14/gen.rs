// C14: generators for adversarial strings, names and values (all randomness from `Rng`).

use super::vals::*;
use vlib::Rng;

const SPECIAL: &[char] = &[
    '\u{2028}', '\u{2029}', '\u{feff}', '\u{200b}', '\u{200d}', '\u{200e}', '\u{202e}', '\u{fffd}', '\u{ffff}',
    '\u{fffe}', '\u{d7ff}', '\u{e000}', '\u{85}', '\u{a0}',
];
const COMBINING: &[char] = &['\u{301}', '\u{308}', '\u{20dd}', '\u{fe0f}', '\u{0e47}', '\u{1ab0}'];
const ASTRAL: &[char] = &[
    '\u{10000}', '\u{1f600}', '\u{1f468}', '\u{1d11e}', '\u{2f800}', '\u{e0001}', '\u{10ffff}', '\u{10fffe}', '\u{1fffe}',
    '\u{f0000}',
];
const STRUCTURAL: &[&str] = &[
    "{", "}", "[", "]", ",", ":", "\\u0041", "\\n", "\\\"", "\\\\", "\"}", "\",\"x\":1", "null", "\\ud800", "/", "</script>",
    "\r\n", "\u{1b}[31m", "'", "%s", "{}", "{:?}",
];

pub fn gen_char(rng: &mut Rng) -> char {
    match rng.below(100) {
        0..=11 => '"',
        12..=21 => '\\',
        22..=36 => char::from_u32(rng.below(0x20) as u32).unwrap(), // all C0 controls
        37..=39 => '\u{7f}',
        40..=42 => char::from_u32(0x80 + rng.below(0x20) as u32).unwrap(), // C1
        43..=50 => *rng.pick(SPECIAL),
        51..=54 => *rng.pick(COMBINING),
        55..=62 => *rng.pick(ASTRAL),
        63..=69 => loop {
            // any scalar value
            let c = rng.below(0x11_0000) as u32;
            if let Some(c) = char::from_u32(c) {
                break c;
            }
        },
        _ => char::from_u32(0x20 + rng.below(0x5f) as u32).unwrap(),
    }
}

pub fn gen_string(rng: &mut Rng) -> String {
    let n = match rng.below(40) {
        0 | 1 => 0,
        2 => 200 + rng.usize(3000),
        3..=12 => 1,
        _ => 1 + rng.usize(16),
    };
    let mut s = String::new();
    for _ in 0..n {
        if rng.chance(1, 12) {
            s.push_str(*rng.pick(STRUCTURAL));
        } else {
            s.push(gen_char(rng));
        }
    }
    s
}

/// tame text (for the cases where only the surrounding structure is of interest)
pub fn gen_plain(rng: &mut Rng) -> String {
    let n = 1 + rng.usize(8);
    (0..n).map(|_| (b'a' + rng.below(26) as u8) as char).collect()
}

const NAME_POOL: &[&str] = &[
    "a", "b", "answer", "http.status", "r#type", "r#fn", "r#a", "type", "user id", "k\"q", "k\\b", "k\tt", "k\nn", "",
    " ", "k\u{0}", "k\u{1f}", "k\u{7f}", "k\u{2028}", "k\u{1f600}", "message", "msg", "r#", "r#r#x", "log", "logx.y",
    "Name", "NAME", "fieldx", "span_", "k{", "k}", "k:", "k,", "\u{feff}", "r#k\"", "r#k\\",
];

/// names the JSON formatter emits itself (json.rs: format_event, SerializableSpan) — the
/// property excludes field names colliding with them; plus `log.`-prefixed names, which the
/// formatter treats as log-crate metadata and skips when the `tracing-log` feature is on.
pub const RESERVED: &[&str] = &[
    "timestamp", "level", "fields", "target", "filename", "line_number", "span", "spans", "threadName", "threadId", "name",
    "field", "field_error",
];

pub fn strip_raw(n: &str) -> &str {
    n.strip_prefix("r#").unwrap_or(n)
}

pub fn name_allowed(n: &str) -> bool {
    let s = strip_raw(n);
    !RESERVED.contains(&n) && !RESERVED.contains(&s) && !n.starts_with("log.") && !s.starts_with("log.")
}

/// `n` distinct (also after `r#` stripping) allowed field names
pub fn gen_names(rng: &mut Rng, n: usize) -> Vec<String> {
    let mut out: Vec<String> = vec![];
    let mut tries = 0;
    while out.len() < n && tries < 200 {
        tries += 1;
        let cand = match rng.below(10) {
            0..=3 => rng.pick(NAME_POOL).to_string(),
            4 => format!("r#{}", gen_short(rng)),
            5 | 6 => gen_plain(rng),
            _ => gen_short(rng),
        };
        if !name_allowed(&cand) {
            continue;
        }
        // the key forms (name, name without r#) of two fields must not overlap
        let forms = |n: &str| -> Vec<String> { vec![n.to_string(), strip_raw(n).to_string()] };
        if out.iter().any(|o| forms(o).iter().any(|f| forms(&cand).contains(f))) {
            continue;
        }
        out.push(cand);
    }
    out
}

fn gen_short(rng: &mut Rng) -> String {
    let n = 1 + rng.usize(6);
    let mut s = String::new();
    for _ in 0..n {
        if rng.chance(1, 3) {
            s.push((b'a' + rng.below(26) as u8) as char);
        } else {
            s.push(gen_char(rng));
        }
    }
    s
}

/// span names / targets / file names / timer texts / thread names
pub fn gen_label(rng: &mut Rng) -> String {
    match rng.below(4) {
        0 => gen_plain(rng),
        _ => gen_short(rng),
    }
}

const I64S: &[i64] = &[
    0, 1, -1, i64::MAX, i64::MIN, i64::MAX - 1, i64::MIN + 1, 1 << 53, (1 << 53) + 1, -(1 << 53) - 1, i32::MAX as i64,
    i32::MIN as i64, 4294967296, 1_000_000_000_000_000_000, -9_007_199_254_740_993,
];
const U64S: &[u64] = &[
    0, 1, u64::MAX, u64::MAX - 1, i64::MAX as u64, i64::MAX as u64 + 1, 1 << 53, (1 << 53) + 1, 1 << 63, 18_446_744_073_709_551_615,
    10_000_000_000_000_000_000,
];
const F64S: &[f64] = &[
    0.0, -0.0, f64::NAN, f64::INFINITY, f64::NEG_INFINITY, f64::MIN_POSITIVE, 5e-324, f64::MAX, f64::MIN, f64::EPSILON, 0.1,
    0.30000000000000004, 1e22, 1e23, 1e-7, 123456789012345680.0, 1.0, -1.5, 9007199254740993.0, 1e300, 1e-300, 2.2250738585072011e-308,
    1.7976931348623157e308, 4.9406564584124654e-324, 1e21, 1e16, 0.000001, 3.141592653589793, 2.718281828459045,
];

pub fn gen_f64(rng: &mut Rng) -> f64 {
    match rng.below(10) {
        0..=3 => *rng.pick(F64S),
        4 | 5 => f64::from_bits(rng.next_u64()),
        6 => (rng.f64() - 0.5) * 10f64.powi(rng.range(-30, 30) as i32),
        7 => rng.range(-1_000_000, 1_000_000) as f64 / 1000.0,
        8 => {
            // subnormals
            f64::from_bits(rng.next_u64() & 0x800f_ffff_ffff_ffff)
        }
        _ => rng.range(-100, 100) as f64,
    }
}

fn gen_i64(rng: &mut Rng) -> i64 {
    match rng.below(3) {
        0 => *rng.pick(I64S),
        1 => rng.next_u64() as i64,
        _ => rng.range(-1000, 1000),
    }
}
fn gen_u64(rng: &mut Rng) -> u64 {
    match rng.below(3) {
        0 => *rng.pick(U64S),
        1 => rng.next_u64(),
        _ => rng.below(1000),
    }
}

fn gen_err(rng: &mut Rng) -> ChainErr {
    let depth = 1 + rng.usize(3);
    let mut e: Option<Box<ChainErr>> = None;
    for _ in 0..depth {
        e = Some(Box::new(ChainErr {
            msg: gen_string(rng),
            source: e,
        }));
    }
    *e.unwrap()
}

fn gen_dbg(rng: &mut Rng) -> DbgV {
    match rng.below(12) {
        0..=3 => DbgV::Raw(gen_string(rng)),
        4 | 5 => DbgV::Str(gen_string(rng)),
        6 => DbgV::VecStr((0..rng.usize(4)).map(|_| gen_string(rng)).collect()),
        7 => DbgV::OptI(if rng.bool() { Some(gen_i64(rng)) } else { None }),
        8 | 9 => DbgV::Struct {
            a: gen_string(rng),
            b: gen_f64(rng),
        },
        10 => DbgV::F(gen_f64(rng)),
        _ => DbgV::Unit,
    }
}

pub fn gen_val(rng: &mut Rng, slot: Slot) -> Val {
    match slot {
        Slot::D => Val::Disp(gen_string(rng)),
        Slot::G => Val::Dbg(gen_dbg(rng)),
        Slot::P => match rng.below(64) {
            0..=9 => Val::Str(gen_string(rng)),
            10 | 11 => Val::Owned(gen_string(rng)),
            12..=16 => Val::I64(gen_i64(rng)),
            17..=21 => Val::U64(gen_u64(rng)),
            22..=24 => Val::I128(match rng.below(4) {
                0 => i128::MIN,
                1 => i128::MAX,
                2 => gen_i64(rng) as i128,
                _ => ((rng.next_u64() as u128) << 64 | rng.next_u64() as u128) as i128,
            }),
            25..=27 => Val::U128(match rng.below(4) {
                0 => u128::MAX,
                1 => 0,
                2 => gen_u64(rng) as u128 + u64::MAX as u128,
                _ => (rng.next_u64() as u128) << 64 | rng.next_u64() as u128,
            }),
            28..=31 => Val::Small(match rng.below(8) {
                0 => Small::I8(*rng.pick(&[i8::MIN, i8::MAX, -1, 0, 7])),
                1 => Small::I16(*rng.pick(&[i16::MIN, i16::MAX, -1, 0, 300])),
                2 => Small::I32(*rng.pick(&[i32::MIN, i32::MAX, -1, 0, 70000])),
                3 => Small::Isize(*rng.pick(&[isize::MIN, isize::MAX, -1, 0, 5])),
                4 => Small::U8(*rng.pick(&[u8::MAX, 0, 200])),
                5 => Small::U16(*rng.pick(&[u16::MAX, 0, 40000])),
                6 => Small::U32(*rng.pick(&[u32::MAX, 0, 3_000_000_000])),
                _ => Small::Usize(*rng.pick(&[usize::MAX, 0, 9])),
            }),
            32 => Val::NonZeroU32(std::num::NonZeroU32::new(*rng.pick(&[1, u32::MAX, 77])).unwrap()),
            33 => Val::NonZeroI64(std::num::NonZeroI64::new(*rng.pick(&[i64::MIN, i64::MAX, -1, 1])).unwrap()),
            34 => Val::Wrapping(std::num::Wrapping(gen_i64(rng))),
            35..=42 => Val::F64(gen_f64(rng)),
            43 | 44 => Val::F32(match rng.below(4) {
                0 => *rng.pick(&[f32::NAN, f32::INFINITY, f32::NEG_INFINITY, f32::MAX, f32::MIN_POSITIVE, 0.1f32, -0.0f32, 1e-45f32]),
                1 => f32::from_bits(rng.next_u32()),
                _ => rng.range(-1000, 1000) as f32 / 8.0,
            }),
            45..=47 => Val::Bool(rng.bool()),
            48..=50 => Val::Bytes({
                let n = match rng.below(6) {
                    0 => 0,
                    1 => 256,
                    _ => 1 + rng.usize(12),
                };
                if n == 256 {
                    (0..=255u8).collect()
                } else {
                    (0..n).map(|_| rng.below(256) as u8).collect()
                }
            }),
            51 | 52 => Val::Err(gen_err(rng)),
            53 => Val::ErrSS(gen_err(rng)),
            54..=58 => Val::Disp(gen_string(rng)),
            _ => Val::Dbg(gen_dbg(rng)),
        },
    }
}
