// C14 oracle: judges the bytes one record produced, against a model of what was recorded.
//
// Independent of the code under test: the line is parsed by vlib's strict RFC 8259 parser
// (duplicate keys rejected); serde_json is consulted only as a second opinion on validity.

use super::gen::strip_raw;
use super::vals::*;
use vlib::json::{self, J};

#[derive(Clone)]
pub struct SiteM {
    pub is_span: bool,
    pub name: String,
    pub target: String,
    /// 1 = ERROR … 5 = TRACE
    pub level: usize,
    pub file: Option<String>,
    pub line: Option<u32>,
    pub fields: Vec<String>,
    pub origin: &'static str,
}

pub struct Step {
    /// (field index, expectation, description)
    pub vals: Vec<(usize, Exp, String)>,
    pub how: String,
}

pub struct SpanM {
    pub site: SiteM,
    pub parent: Option<usize>,
    /// steps[0] is the creation
    pub steps: Vec<Step>,
}

impl SpanM {
    pub fn has_escaped_name(&self) -> bool {
        self.site.fields.iter().any(|n| needs_escape(n))
    }
    /// F8 model: a `record` call is lost iff, when it is made, the span's stored object
    /// already holds a key that serde_json had to escape (`add_fields` deserialises the
    /// stored keys as borrowed `&str`, which fails on any escape).  Returns the indices of
    /// the steps that take effect.
    pub fn f8_effective(&self) -> Vec<usize> {
        let mut eff = vec![];
        let mut stored_escape = false;
        for (i, st) in self.steps.iter().enumerate() {
            if i > 0 && stored_escape {
                continue;
            }
            eff.push(i);
            if st.vals.iter().any(|(f, e, _)| !matches!(e, Exp::Absent) && needs_escape(&self.site.fields[*f])) {
                stored_escape = true;
            }
        }
        eff
    }
    pub fn describe(&self) -> serde_json::Value {
        serde_json::json!({
            "name": self.site.name, "declared_fields": self.site.fields, "parent": self.parent, "origin": self.site.origin,
            "steps": self.steps.iter().map(|s| serde_json::json!({"how": s.how,
                 "values": s.vals.iter().map(|(f, _, d)| format!("{:?} = {}", self.site.fields[*f], d)).collect::<Vec<_>>()})).collect::<Vec<_>>(),
        })
    }
}

#[derive(Clone, Debug)]
pub struct Mismatch {
    pub kind: &'static str,
    pub detail: String,
}
fn mm(kind: &'static str, detail: String) -> Mismatch {
    Mismatch { kind, detail }
}

pub const LEVELS: [&str; 6] = ["", "ERROR", "WARN", "INFO", "DEBUG", "TRACE"];

pub fn hex_bytes(b: &[u8]) -> String {
    let mut s = String::from("[");
    for (i, x) in b.iter().enumerate() {
        if i > 0 {
            s.push(' ');
        }
        s.push_str(&format!("{x:02x}"));
    }
    s.push(']');
    s
}

/// "a few ulp": the bound under which a float deviation is classed as inexact re-parsing
pub const MAX_ULPS: u64 = 16;

fn ulps(a: f64, b: f64) -> u64 {
    fn key(x: f64) -> i64 {
        let b = x.to_bits() as i64;
        if b < 0 {
            i64::MIN.wrapping_sub(b)
        } else {
            b
        }
    }
    key(a).wrapping_sub(key(b)).unsigned_abs()
}

#[derive(Default)]
pub struct Notes {
    pub bytes_array: u64,
    pub bytes_hex: u64,
    pub raw_kept: u64,
    pub raw_stripped: u64,
    pub big_as_string: u64,
    pub big_as_number: u64,
    pub neg_zero_kept: u64,
    pub neg_zero_lost: u64,
    pub null_for_nonfinite: u64,
    pub rerecord_latest: u64,
    pub rerecord_older: u64,
    pub err_display: u64,
    pub err_debug: u64,
    pub values_checked: u64,
    pub span_objects: u64,
    /// a re-recorded field of a span WITHOUT escaped names shows an older value
    pub rerecord_older_clean: u64,
    pub max_ulps: u64,
    /// accept a float a few ulp away (collected in `inexact`)
    pub tolerate_ulp: bool,
    pub inexact: Vec<String>,
    pub span_has_escaped: bool,
}
impl Notes {
    pub fn absorb(&mut self, o: Notes) {
        self.bytes_array += o.bytes_array;
        self.bytes_hex += o.bytes_hex;
        self.raw_kept += o.raw_kept;
        self.raw_stripped += o.raw_stripped;
        self.big_as_string += o.big_as_string;
        self.big_as_number += o.big_as_number;
        self.neg_zero_kept += o.neg_zero_kept;
        self.neg_zero_lost += o.neg_zero_lost;
        self.null_for_nonfinite += o.null_for_nonfinite;
        self.rerecord_latest += o.rerecord_latest;
        self.rerecord_older += o.rerecord_older;
        self.err_display += o.err_display;
        self.err_debug += o.err_debug;
        self.values_checked += o.values_checked;
        self.span_objects += o.span_objects;
        self.rerecord_older_clean += o.rerecord_older_clean;
        self.max_ulps = self.max_ulps.max(o.max_ulps);
    }
}

/// does JSON value `j` carry what `e` demands (the documented type mapping)?
pub fn value_matches(e: &Exp, j: &J, notes: &mut Notes) -> Result<(), Mismatch> {
    notes.values_checked += 1;
    match e {
        Exp::Absent => Err(mm("harness", "HARNESS: Absent has no value".into())),
        Exp::Str(opts) => match j {
            J::Str(s) if opts.iter().any(|o| o == s) => {
                if opts.len() == 2 {
                    if &opts[0] == s {
                        notes.err_display += 1;
                    } else {
                        notes.err_debug += 1;
                    }
                }
                Ok(())
            }
            _ => Err(mm("wrong_value", format!("expected the string {:?}, found {}", opts[0], show(j)))),
        },
        Exp::Int(v) => {
            if j.as_i128() == Some(*v) {
                return Ok(());
            }
            // an equal number written in float syntax is still an equal JSON number
            if let (J::Num(_), Some(f)) = (j, j.as_f64()) {
                if v.unsigned_abs() <= (1u128 << 53) && f == *v as f64 {
                    return Ok(());
                }
            }
            Err(mm("wrong_value", format!("expected the integer {v}, found {}", show(j))))
        }
        Exp::Big(s) => match j {
            J::Str(t) if t == s => {
                notes.big_as_string += 1;
                Ok(())
            }
            J::Num(t) if t == s => {
                notes.big_as_number += 1;
                Ok(())
            }
            _ => Err(mm("wrong_value", format!("expected the 128-bit integer {s} as a string, found {}", show(j)))),
        },
        Exp::F(x) => {
            if !x.is_finite() {
                // serde_json documents: non-finite floats serialize as null
                return if *j == J::Null {
                    notes.null_for_nonfinite += 1;
                    Ok(())
                } else {
                    Err(mm("wrong_value", format!("expected null for the non-finite float {x:?}, found {}", show(j))))
                };
            }
            match (j, j.as_f64()) {
                (J::Num(t), Some(y)) if y == *x => {
                    if *x == 0.0 && x.is_sign_negative() {
                        if t.starts_with('-') {
                            notes.neg_zero_kept += 1;
                        } else {
                            notes.neg_zero_lost += 1;
                        }
                    }
                    Ok(())
                }
                (J::Num(t), Some(y)) if ulps(y, *x) <= MAX_ULPS => {
                    let d = format!(
                        "recorded the float {x:?} (bits {:#018x}), the output has the number {t} = {y:?} (bits {:#018x}), {} ulp away",
                        x.to_bits(),
                        y.to_bits(),
                        ulps(y, *x)
                    );
                    if notes.tolerate_ulp {
                        notes.max_ulps = notes.max_ulps.max(ulps(y, *x));
                        notes.inexact.push(d);
                        Ok(())
                    } else {
                        Err(mm("float_inexact", d))
                    }
                }
                _ => Err(mm("wrong_value", format!("expected the float {x:?}, found {}", show(j)))),
            }
        }
        Exp::Bool(b) => {
            if *j == J::Bool(*b) {
                Ok(())
            } else {
                Err(mm("wrong_value", format!("expected {b}, found {}", show(j))))
            }
        }
        Exp::Bytes(b) => match j {
            J::Arr(a) if a.len() == b.len() && a.iter().zip(b).all(|(x, y)| x.as_i128() == Some(*y as i128)) => {
                notes.bytes_array += 1;
                Ok(())
            }
            // visitors without `record_bytes` fall back to tracing-core's documented default
            // (Debug rendering of the slice); the property does not fix which
            J::Str(s) if *s == hex_bytes(b) || *s == format!("{b:?}") => {
                notes.bytes_hex += 1;
                Ok(())
            }
            _ => Err(mm("wrong_value", format!("expected the bytes {b:?} (number array or their Debug text), found {}", show(j)))),
        },
    }
}

pub fn show(j: &J) -> String {
    let s = match j {
        J::Null => "null".to_string(),
        J::Bool(b) => b.to_string(),
        J::Num(t) => format!("number {t}"),
        J::Str(s) => format!("string {s:?}"),
        J::Arr(a) => format!("array of {} [{}]", a.len(), a.iter().take(8).map(show).collect::<Vec<_>>().join(", ")),
        J::Obj(o) => format!("object with keys {:?}", o.iter().map(|(k, _)| k).collect::<Vec<_>>()),
    };
    if s.len() > 400 {
        let mut i = 400;
        while !s.is_char_boundary(i) {
            i += 1;
        }
        format!("{}…", &s[..i])
    } else {
        s
    }
}

/// the key forms a field name may legitimately appear under
fn key_forms(name: &str) -> Vec<&str> {
    if name.starts_with("r#") {
        vec![name, strip_raw(name)]
    } else {
        vec![name]
    }
}

/// Check a set of (name -> acceptable values, latest last) against the entries of an object.
/// `taken` marks entries of `obj` that are accounted for.
fn check_fields(
    obj: &[(String, J)],
    taken: &mut [bool],
    fields: &[(&str, Vec<&Exp>)],
    what: &str,
    notes: &mut Notes,
) -> Result<(), Mismatch> {
    for (name, accepted) in fields {
        let forms = key_forms(name);
        let mut present = 0;
        for (fi, form) in forms.iter().enumerate() {
            let Some(pos) = obj.iter().position(|(k, _)| k == form) else { continue };
            if taken[pos] {
                // already claimed by a fixed key or another field: cannot be ours
                continue;
            }
            if accepted.is_empty() {
                return Err(mm("invented_field", format!("{what}: key {form:?} is present although field {name:?} was never given a value")));
            }
            taken[pos] = true;
            present += 1;
            if forms.len() == 2 {
                if fi == 0 {
                    notes.raw_kept += 1;
                } else {
                    notes.raw_stripped += 1;
                }
            }
            // latest value, or (re-recorded fields: be permissive) any earlier one
            let mut last_err = None;
            let mut ok_at = None;
            for (ai, e) in accepted.iter().enumerate().rev() {
                match value_matches(e, &obj[pos].1, notes) {
                    Ok(()) => {
                        ok_at = Some(ai);
                        break;
                    }
                    Err(m) => {
                        if last_err.is_none() {
                            last_err = Some(m);
                        }
                    }
                }
            }
            match ok_at {
                Some(ai) => {
                    if accepted.len() > 1 {
                        if ai == accepted.len() - 1 {
                            notes.rerecord_latest += 1;
                        } else {
                            notes.rerecord_older += 1;
                            if !notes.span_has_escaped && forms.len() == 1 {
                                // a field that was recorded again must show what was recorded last:
                                // an older value can only be explained by F8 (escaped names freeze
                                // later records) or by the r#-key duplication, neither applies here
                                notes.rerecord_older_clean += 1;
                                return Err(mm(
                                    "stale_rerecorded_value",
                                    format!("{what}: field {name:?} was recorded {} times; the output shows the value of recording #{} instead of the latest", accepted.len(), ai + 1),
                                ));
                            }
                        }
                    }
                }
                None => {
                    let m = last_err.unwrap();
                    return Err(mm(m.kind, format!("{what}: field {name:?} (key {form:?}): {}", m.detail)));
                }
            }
        }
        if present == 0 && !accepted.is_empty() {
            return Err(mm("missing_field", format!("{what}: field {name:?} was given a value but no key {forms:?} is present")));
        }
    }
    Ok(())
}

/// Check one span object against the span's history, using only the steps in `effective`.
pub fn check_span_obj(j: &J, sp: &SpanM, effective: &[usize], notes: &mut Notes) -> Result<(), Mismatch> {
    let what = format!("span {:?}", sp.site.name);
    let Some(obj) = j.as_obj() else {
        return Err(mm("span_shape", format!("{what}: not an object: {}", show(j))));
    };
    let mut taken = vec![false; obj.len()];
    // the formatter's own key
    match obj.iter().position(|(k, _)| k == "name") {
        Some(p) => {
            taken[p] = true;
            if obj[p].1.as_str() != Some(sp.site.name.as_str()) {
                return Err(mm("span_name", format!("{what}: \"name\" is {}", show(&obj[p].1))));
            }
        }
        None => return Err(mm("span_name", format!("{what}: object has no \"name\": {}", show(j)))),
    }
    // the formatter's own marker for a stored field string it could not parse back
    if let Some((_, v)) = obj.iter().find(|(k, _)| k == "field_error") {
        return Err(mm("span_fields_malformed", format!("{what}: the formatter reports its stored fields as malformed: \"field_error\" = {}", show(v))));
    }
    let mut fields: Vec<(&str, Vec<&Exp>)> = sp.site.fields.iter().map(|n| (n.as_str(), vec![])).collect();
    for &si in effective {
        for (f, e, _) in &sp.steps[si].vals {
            if !matches!(e, Exp::Absent) {
                fields[*f].1.push(e);
            }
        }
    }
    check_fields(obj, &mut taken, &fields, &what, notes)?;
    if let Some(p) = taken.iter().position(|t| !t) {
        return Err(mm("invented_field", format!("{what}: unexpected key {:?} = {}", obj[p].0, show(&obj[p].1))));
    }
    // One type mapping for span fields, whenever they were recorded.  Where this judge accepts
    // two renderings of a value (a byte slice as number array or as its Debug text), the one
    // used for fields given at span creation and the one used for fields recorded later have to
    // be the same one (process-wide observation).
    for (f, name) in sp.site.fields.iter().enumerate() {
        let latest = effective.iter().rev().find_map(|&si| sp.steps[si].vals.iter().rev().find(|(ff, e, _)| *ff == f && !matches!(e, Exp::Absent)).map(|(_, e, _)| (si, e)));
        let Some((si, e)) = latest else { continue };
        let forms = key_forms(name);
        let Some((fi, entry)) = forms.iter().enumerate().find_map(|(fi, form)| obj.iter().find(|(k, _)| k == form).map(|x| (fi, x))) else { continue };
        let when = if si == 0 { 0 } else { 1 };
        let mut seen: Vec<(usize, u8, &str)> = vec![];
        if matches!(e, Exp::Bytes(_)) {
            seen.push((0, if matches!(entry.1, J::Arr(_)) { 1 } else { 2 }, "a byte slice (1 = number array, 2 = Debug text)"));
        }
        // (raw-identifier names are NOT compared this way: whether `r#` is kept depends on the
        // value's type in the pinned tree, at creation and later alike)
        let _ = fi;
        for (base, bit, desc) in seen {
            let mine = SPAN_MAPPING[base + when].fetch_or(bit, std::sync::atomic::Ordering::SeqCst) | bit;
            let other = SPAN_MAPPING[base + 1 - when].load(std::sync::atomic::Ordering::SeqCst);
            if other != 0 && other != mine {
                return Err(mm(
                    "span_mapping_depends_on_when_recorded",
                    format!(
                        "{what}: field {name:?}, recorded {}, renders {desc} as {bit}; span fields recorded {} were rendered as {other} (bit set) in this process",
                        if when == 0 { "at span creation" } else { "after span creation" },
                        if when == 0 { "after creation" } else { "at creation" }
                    ),
                ));
            }
        }
    }
    Ok(())
}

/// [bytes at creation, bytes later, raw name at creation, raw name later]: bit sets of the
/// renderings observed so far in this process
static SPAN_MAPPING: [std::sync::atomic::AtomicU8; 4] = [
    std::sync::atomic::AtomicU8::new(0),
    std::sync::atomic::AtomicU8::new(0),
    std::sync::atomic::AtomicU8::new(0),
    std::sync::atomic::AtomicU8::new(0),
];

#[derive(Default)]
pub struct SpanVerdict {
    /// the object is exactly what F8 predicts (and not what was recorded)
    pub f8: Option<String>,
    /// f64 values a few ulp off (everything else matches)
    pub inexact: Vec<String>,
    pub bad: Option<Mismatch>,
}

/// Judge one span object.  Tried in this order: exactly what was recorded; the same with f64
/// values allowed to be a few ulp off; exactly what finding F8 predicts; F8 + inexact floats.
pub fn judge_span(j: &J, sp: &SpanM, notes: &mut Notes) -> SpanVerdict {
    let all: Vec<usize> = (0..sp.steps.len()).collect();
    let eff = sp.f8_effective();
    let f8_possible = eff.len() < all.len() && sp.has_escaped_name();
    let mut first_err = None;
    for (steps, f8) in [(&all, false), (&eff, true)] {
        if f8 && !f8_possible {
            break;
        }
        for tol in [false, true] {
            let mut scratch = Notes { tolerate_ulp: tol, span_has_escaped: sp.has_escaped_name(), ..Notes::default() };
            scratch.span_objects = 1;
            match check_span_obj(j, sp, steps, &mut scratch) {
                Ok(()) => {
                    let inexact = std::mem::take(&mut scratch.inexact);
                    notes.absorb(scratch);
                    let f8d = if f8 {
                        let lost: Vec<String> = all.iter().filter(|i| !eff.contains(i)).map(|i| sp.steps[*i].how.clone()).collect();
                        let e: &Mismatch = first_err.as_ref().unwrap();
                        Some(format!("{}; the object equals exactly what remains when these record calls are dropped: {:?}", e.detail, lost))
                    } else {
                        None
                    };
                    return SpanVerdict { f8: f8d, inexact, bad: None };
                }
                Err(m) => {
                    if first_err.is_none() {
                        first_err = Some(m);
                    }
                }
            }
        }
    }
    notes.span_objects += 1;
    SpanVerdict { f8: None, inexact: vec![], bad: first_err }
}

pub struct Cfg {
    pub flatten: bool,
    pub cur_span: bool,
    pub span_list: bool,
    pub target: bool,
    pub level: bool,
    pub tids: bool,
    pub tnames: bool,
    pub file: bool,
    pub line: bool,
    /// None = without_time(); Some(None) = default SystemTime; Some(Some(text)) = timer writing `text`
    pub timer: Option<Option<String>>,
    /// FmtSpan bits: 1 new, 2 enter, 4 exit, 8 close
    pub span_events: u8,
    /// 0 = `fmt().json()..finish()`; 1..3 = `registry().with(X)` with X = the JSON subscriber
    /// boxed / in a one-element Vec of boxes / in `Some(..)` (the usual run-time-selected forms)
    pub wrap: u8,
}
impl Cfg {
    pub fn describe(&self) -> serde_json::Value {
        serde_json::json!({"flatten_event": self.flatten, "with_current_span": self.cur_span, "with_span_list": self.span_list,
            "with_target": self.target, "with_level": self.level, "with_thread_ids": self.tids, "with_thread_names": self.tnames,
            "with_file": self.file, "with_line_number": self.line,
            "timer": match &self.timer { None => "without_time".to_string(), Some(None) => "SystemTime".to_string(), Some(Some(t)) => format!("constant {t:?}") },
            "span_events_bits(new=1,enter=2,exit=4,close=8)": self.span_events,
            "construction": (["fmt().json().finish()", "registry().with(subscriber.boxed())", "registry().with(vec![subscriber.boxed()])", "registry().with(Some(subscriber.boxed()))"][self.wrap as usize])})
    }
}

pub struct ThreadInfo {
    pub name: Option<String>,
    pub id_debug: String,
}

/// what one record must contain
pub struct ExpRecord<'a> {
    pub site: &'a SiteM,
    /// event fields: (name, expectation)
    pub fields: Vec<(String, Exp)>,
    /// keys that may additionally appear among the event fields with any string value
    pub optional_string_fields: Vec<&'static str>,
    /// the span the formatter treats as "current" for this record, if any
    pub span: Option<usize>,
    /// acceptable span lists (root -> leaf), first = the primary reading
    pub lists: Vec<Vec<usize>>,
}

pub enum Issue {
    Bad(Mismatch),
    F8 { span: usize, detail: String },
    Inexact { span: usize, detail: String },
}

pub struct Judged {
    pub issues: Vec<Issue>,
}

fn check_list(j: &J, chain: &[usize], spans: &[SpanM], notes: &mut Notes) -> Vec<Issue> {
    let Some(arr) = j.as_arr() else {
        return vec![Issue::Bad(mm("span_list", format!("\"spans\" is not an array: {}", show(j))))];
    };
    let names = |a: &Vec<J>| a.iter().map(|s| s.get("name").map(show).unwrap_or_else(|| "?".into())).collect::<Vec<_>>();
    if arr.len() != chain.len() {
        return vec![Issue::Bad(mm(
            "span_list",
            format!(
                "\"spans\" has {} entries {:?}, expected root->leaf {:?}",
                arr.len(),
                names(arr),
                chain.iter().map(|i| spans[*i].site.name.clone()).collect::<Vec<_>>()
            ),
        ))];
    }
    let mut out = vec![];
    for (pos, (sj, &si)) in arr.iter().zip(chain).enumerate() {
        let v = judge_span(sj, &spans[si], notes);
        if let Some(d) = v.f8 {
            out.push(Issue::F8 { span: si, detail: format!("spans[{pos}]: {d}") });
        }
        for d in v.inexact {
            out.push(Issue::Inexact { span: si, detail: format!("spans[{pos}]: {d}") });
        }
        if let Some(m) = v.bad {
            out.push(Issue::Bad(mm(
                if m.kind == "span_name" { "span_list" } else { m.kind },
                format!(
                    "spans[{pos}] (expected root->leaf {:?}, found names {:?}): {}",
                    chain.iter().map(|i| spans[*i].site.name.clone()).collect::<Vec<_>>(),
                    names(arr),
                    m.detail
                ),
            )));
        }
    }
    out
}

/// Judge the bytes written for one record.
pub fn judge(bytes: &[u8], cfg: &Cfg, er: &ExpRecord<'_>, spans: &[SpanM], th: &ThreadInfo, notes: &mut Notes) -> Judged {
    let bad = |kind: &'static str, d: String| Judged { issues: vec![Issue::Bad(mm(kind, d))] };
    let Ok(text) = std::str::from_utf8(bytes) else {
        return bad("not_utf8", "the record is not valid UTF-8".into());
    };
    let Some(line) = text.strip_suffix('\n') else {
        return bad("line_shape", "the record does not end with a newline".into());
    };
    if line.contains('\n') {
        return bad("line_shape", format!("the record spans {} lines", line.matches('\n').count() + 1));
    }
    let root = match json::parse(line) {
        Ok(r) => r,
        Err(e) => {
            let second = match serde_json::from_str::<serde_json::Value>(line) {
                Ok(_) => "serde_json accepts the line (it tolerates duplicate keys)".to_string(),
                Err(e2) => format!("serde_json rejects it too: {e2}"),
            };
            return bad("invalid_json", format!("strict parser: {} at byte {}; {second}", e.msg, e.pos));
        }
    };
    if let Err(e2) = serde_json::from_str::<serde_json::Value>(line) {
        return bad("parser_disagreement", format!("strict parser accepts the line, serde_json rejects it: {e2}"));
    }
    let Some(obj) = root.as_obj() else {
        return bad("not_object", format!("the line is valid JSON but not an object: {}", show(&root)));
    };
    let mut issues = vec![];
    let mut taken = vec![false; obj.len()];
    let mut fixed = |key: &str, want: bool, issues: &mut Vec<Issue>| -> Option<J> {
        match obj.iter().position(|(k, _)| k == key) {
            Some(p) if want => {
                taken[p] = true;
                Some(obj[p].1.clone())
            }
            Some(_) => None, // left untaken: reported as unexpected below (unless an event field claims it)
            None => {
                if want {
                    issues.push(Issue::Bad(mm("missing_key", format!("key {key:?} is missing"))));
                }
                None
            }
        }
    };
    // timestamp
    if let Some(v) = fixed("timestamp", cfg.timer.is_some(), &mut issues) {
        match (&cfg.timer, v.as_str()) {
            (Some(Some(t)), Some(s)) if s != t => {
                issues.push(Issue::Bad(mm("wrong_value", format!("\"timestamp\": timer wrote {t:?}, found {s:?}"))))
            }
            (_, None) => issues.push(Issue::Bad(mm("wrong_value", format!("\"timestamp\" is {}", show(&v))))),
            _ => {}
        }
    }
    if let Some(v) = fixed("level", cfg.level, &mut issues) {
        if v.as_str() != Some(LEVELS[er.site.level]) {
            issues.push(Issue::Bad(mm("wrong_value", format!("\"level\": expected {:?}, found {}", LEVELS[er.site.level], show(&v)))));
        }
    }
    if let Some(v) = fixed("target", cfg.target, &mut issues) {
        if v.as_str() != Some(er.site.target.as_str()) {
            issues.push(Issue::Bad(mm("wrong_value", format!("\"target\": expected {:?}, found {}", er.site.target, show(&v)))));
        }
    }
    if let Some(v) = fixed("filename", cfg.file && er.site.file.is_some(), &mut issues) {
        if v.as_str() != er.site.file.as_deref() {
            issues.push(Issue::Bad(mm("wrong_value", format!("\"filename\": expected {:?}, found {}", er.site.file, show(&v)))));
        }
    }
    if let Some(v) = fixed("line_number", cfg.line && er.site.line.is_some(), &mut issues) {
        if v.as_i128() != er.site.line.map(|l| l as i128) {
            issues.push(Issue::Bad(mm("wrong_value", format!("\"line_number\": expected {:?}, found {}", er.site.line, show(&v)))));
        }
    }
    let tname: Option<String> = if !cfg.tnames {
        None
    } else {
        match &th.name {
            Some(n) => Some(n.clone()),
            None if !cfg.tids => Some(th.id_debug.clone()),
            None => None,
        }
    };
    if let Some(v) = fixed("threadName", tname.is_some(), &mut issues) {
        if v.as_str() != tname.as_deref() {
            issues.push(Issue::Bad(mm("wrong_value", format!("\"threadName\": expected {tname:?}, found {}", show(&v)))));
        }
    }
    if let Some(v) = fixed("threadId", cfg.tids, &mut issues) {
        if v.as_str() != Some(th.id_debug.as_str()) {
            issues.push(Issue::Bad(mm("wrong_value", format!("\"threadId\": expected {:?}, found {}", th.id_debug, show(&v)))));
        }
    }
    // current span
    if let Some(v) = fixed("span", cfg.cur_span && er.span.is_some(), &mut issues) {
        let si = er.span.unwrap();
        let sv = judge_span(&v, &spans[si], notes);
        if let Some(d) = sv.f8 {
            issues.push(Issue::F8 { span: si, detail: format!("\"span\": {d}") });
        }
        for d in sv.inexact {
            issues.push(Issue::Inexact { span: si, detail: format!("\"span\": {d}") });
        }
        if let Some(m) = sv.bad {
            issues.push(Issue::Bad(mm(m.kind, format!("\"span\": {}", m.detail))));
        }
    }
    // span list
    if let Some(v) = fixed("spans", cfg.span_list && er.span.is_some(), &mut issues) {
        let mut best: Option<Vec<Issue>> = None;
        for chain in &er.lists {
            let mut scratch = Notes::default();
            let is = check_list(&v, chain, spans, &mut scratch);
            let clean = !is.iter().any(|i| matches!(i, Issue::Bad(_)));
            if clean {
                best = Some(check_list(&v, chain, spans, notes));
                break;
            }
            if best.is_none() {
                best = Some(is);
            }
        }
        issues.extend(best.unwrap_or_default());
    }
    // event fields
    let fields: Vec<(&str, Vec<&Exp>)> =
        er.fields.iter().map(|(n, e)| (n.as_str(), if matches!(e, Exp::Absent) { vec![] } else { vec![e] })).collect();
    if cfg.flatten {
        drop(fixed);
        if let Err(m) = check_fields(obj, &mut taken, &fields, "event (flattened)", notes) {
            issues.push(Issue::Bad(m));
        }
        for o in &er.optional_string_fields {
            if let Some(p) = obj.iter().position(|(k, _)| k == o) {
                if !taken[p] && obj[p].1.as_str().is_some() {
                    taken[p] = true;
                }
            }
        }
    } else {
        let v = fixed("fields", true, &mut issues);
        drop(fixed);
        if let Some(v) = v {
            match v.as_obj() {
                None => issues.push(Issue::Bad(mm("wrong_value", format!("\"fields\" is not an object: {}", show(&v))))),
                Some(fo) => {
                    let mut ft = vec![false; fo.len()];
                    if let Err(m) = check_fields(fo, &mut ft, &fields, "event \"fields\"", notes) {
                        issues.push(Issue::Bad(m));
                    }
                    for o in &er.optional_string_fields {
                        if let Some(p) = fo.iter().position(|(k, _)| k == o) {
                            if !ft[p] && fo[p].1.as_str().is_some() {
                                ft[p] = true;
                            }
                        }
                    }
                    if let Some(p) = ft.iter().position(|t| !t) {
                        issues.push(Issue::Bad(mm("invented_field", format!("\"fields\": unexpected key {:?} = {}", fo[p].0, show(&fo[p].1)))));
                    }
                }
            }
        }
    }
    if let Some(p) = taken.iter().position(|t| !t) {
        issues.push(Issue::Bad(mm("unexpected_key", format!("unexpected top-level key {:?} = {}", obj[p].0, show(&obj[p].1)))));
    }
    Judged { issues }
}
