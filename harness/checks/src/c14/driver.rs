// C14 driver (included by bin/c14.rs): one case = one subscriber configuration + one history
// of span creations, enters/exits, `record` calls and events; every record the writer
// receives is judged right after the operation that caused it.

fn gen_cfg(rng: &mut Rng) -> Cfg {
    Cfg {
        flatten: rng.bool(),
        cur_span: rng.chance(3, 4),
        span_list: rng.chance(3, 4),
        target: rng.chance(3, 4),
        level: rng.chance(3, 4),
        tids: rng.chance(1, 3),
        tnames: rng.chance(1, 3),
        file: rng.chance(1, 2),
        line: rng.chance(1, 2),
        timer: match rng.below(4) {
            0 => None,
            1 => Some(None),
            _ => Some(Some(gen_label(rng))),
        },
        span_events: match rng.below(8) {
            0 => 15,
            1 => rng.below(16) as u8,
            _ => 0,
        },
        wrap: if rng.chance(1, 3) { 1 + rng.below(3) as u8 } else { 0 },
    }
}

fn build_dispatch(cfg: &Cfg, w: RecMake) -> Dispatch {
    let mut fs = FmtSpan::NONE;
    for (bit, k) in [(1u8, FmtSpan::NEW), (2, FmtSpan::ENTER), (4, FmtSpan::EXIT), (8, FmtSpan::CLOSE)] {
        if cfg.span_events & bit != 0 {
            fs = fs | k;
        }
    }
    let mut b_writer = Some(w.clone());
    let fs2 = fs.clone();
    let b = tracing_subscriber::fmt()
        .json()
        .flatten_event(cfg.flatten)
        .with_current_span(cfg.cur_span)
        .with_span_list(cfg.span_list)
        .with_target(cfg.target)
        .with_level(cfg.level)
        .with_thread_ids(cfg.tids)
        .with_thread_names(cfg.tnames)
        .with_file(cfg.file)
        .with_line_number(cfg.line)
        .with_span_events(fs)
        .with_max_level(Level::TRACE)
        .with_writer(w);
    if cfg.wrap == 0 {
        return match &cfg.timer {
            None => Dispatch::new(b.without_time().finish()),
            Some(None) => Dispatch::new(b.finish()),
            Some(Some(t)) => Dispatch::new(b.with_timer(ConstTimer(t.clone())).finish()),
        };
    }
    // the same configuration as a subscriber on a registry, behind the wrappers used to pick a
    // formatter at run time
    use tracing_subscriber::prelude::*;
    type BS = Box<dyn tracing_subscriber::Subscribe<tracing_subscriber::Registry> + Send + Sync>;
    let w2 = match b_writer.take() { Some(w) => w, None => panic!("HARNESS: writer used twice") };
    let s = tracing_subscriber::fmt::subscriber()
        .json()
        .flatten_event(cfg.flatten)
        .with_current_span(cfg.cur_span)
        .with_span_list(cfg.span_list)
        .with_target(cfg.target)
        .with_level(cfg.level)
        .with_thread_ids(cfg.tids)
        .with_thread_names(cfg.tnames)
        .with_file(cfg.file)
        .with_line_number(cfg.line)
        .with_span_events(fs2)
        .with_writer(w2);
    let boxed: BS = match &cfg.timer {
        None => Box::new(s.without_time()),
        Some(None) => Box::new(s),
        Some(Some(t)) => Box::new(s.with_timer(ConstTimer(t.clone()))),
    };
    match cfg.wrap {
        1 => Dispatch::new(tracing_subscriber::registry().with(boxed)),
        2 => Dispatch::new(tracing_subscriber::registry().with(vec![boxed])),
        _ => Dispatch::new(tracing_subscriber::registry().with(Some(boxed))),
    }
}

struct LiveSpan {
    handle: Option<tracing::Span>,
    slots: Vec<Slot>,
}

struct Case<'o> {
    cfg: Cfg,
    writer: RecMake,
    spans: Vec<SpanM>,
    live: Vec<LiveSpan>,
    /// entered spans, innermost last
    stack: Vec<(usize, tracing::span::EnteredSpan)>,
    ops: Vec<String>,
    th: ThreadInfo,
    notes: Notes,
    out: &'o mut Out,
    args: &'o Args,
    case_idx: u64,
    /// set when a violation was raised: the rest of the case is not judged
    stop: bool,
    float_inexact_reported: &'o mut u64,
}

struct Expected<'a> {
    site: &'a SiteM,
    fields: Vec<(String, Exp)>,
    field_descr: Vec<String>,
    optional: Vec<&'static str>,
    span: Option<usize>,
    lists: Vec<Vec<usize>>,
    /// value kinds / escape flags for the evidence signature
    kinds: Vec<&'static str>,
    escapes: bool,
}

fn what_of(kind: &str) -> &'static str {
    match kind {
        "not_utf8" => "a record is not valid UTF-8",
        "line_shape" => "a record is not exactly one line",
        "invalid_json" => "a record is not valid JSON (strict RFC 8259, unique keys)",
        "not_object" => "a record is not a JSON object",
        "missing_key" => "a key the configuration asks for is missing",
        "missing_field" => "a field that was given a value is missing from the output",
        "wrong_value" => "a value in the output differs from what was recorded",
        "float_inexact" => "an f64 value comes out as a different number (a few ulp away) than the one recorded",
        "span_fields_malformed" => "a span's stored fields are malformed (the formatter emitted field_error instead of the fields)",
        "invented_field" | "unexpected_key" => "the output contains a key that nothing recorded",
        "span_list" | "span_name" | "span_shape" => "the span list / current span does not name the spans in scope root->leaf",
        "parser_disagreement" => "parsers disagree on validity",
        _ => "divergence",
    }
}

impl<'o> Case<'o> {
    fn chain(&self, mut i: usize) -> Vec<usize> {
        let mut c = vec![i];
        while let Some(p) = self.spans[i].parent {
            c.push(p);
            i = p;
        }
        c.reverse();
        c
    }
    fn current(&self) -> Option<usize> {
        self.stack.last().map(|(i, _)| *i)
    }
    fn current_chain(&self) -> Vec<usize> {
        self.current().map(|c| self.chain(c)).unwrap_or_default()
    }

    fn witness(&self, op: &str, line: &[u8], problems: Vec<String>, exp: Option<&Expected<'_>>) -> serde_json::Value {
        let mut text = String::from_utf8_lossy(line).into_owned();
        if text.len() > 6000 {
            let mut i = 6000;
            while !text.is_char_boundary(i) {
                i += 1;
            }
            text.truncate(i);
            text.push_str("…[truncated]");
        }
        let mut child_args = run::raw_argv();
        child_args.retain(|a| !a.starts_with("only="));
        child_args.push(format!("only={}", self.case_idx));
        let scope: Vec<usize> = match exp {
            Some(e) => {
                let mut v: Vec<usize> = e.lists.iter().flatten().copied().collect();
                v.extend(e.span);
                v.sort();
                v.dedup();
                v
            }
            None => vec![],
        };
        json!({
            "seed": self.args.seed, "shard": self.args.shard, "case": self.case_idx,
            "config": self.cfg.describe(),
            "thread": {"name": self.th.name, "id": self.th.id_debug},
            "history": self.ops,
            "judged_operation": op,
            "observed_bytes": text,
            "problems": problems,
            "expected_event_fields": exp.map(|e| e.field_descr.clone()),
            "expected_span_list_root_to_leaf": exp.map(|e| e.lists.first().cloned()),
            "spans": scope.iter().map(|i| json!({"index": i, "model": self.spans[*i].describe()})).collect::<Vec<_>>(),
            "child_args": child_args,
            "debug_assertions": cfg!(debug_assertions),
        })
    }

    /// Drain the writer after an operation; `exp` = the one record it must have produced.
    fn settle(&mut self, op: &str, exp: Option<Expected<'_>>) {
        let writes = self.writer.drain();
        if self.stop {
            return;
        }
        let bytes: Vec<u8> = writes.concat();
        let Some(exp) = exp else {
            if !bytes.is_empty() {
                self.stop = true;
                let w = self.witness(op, &bytes, vec!["this operation must not produce output".into()], None);
                self.out.violation("output was written by an operation that emits no record", w);
            }
            return;
        };
        self.out.evals += 1;
        self.out.count("records_judged", 1);
        self.out.count("write_calls", writes.len() as u64);
        if bytes.is_empty() {
            self.stop = true;
            let w = self.witness(op, &bytes, vec!["no bytes were written for this record".into()], Some(&exp));
            self.out.violation("no record was written for an event", w);
            return;
        }
        let er = ExpRecord {
            site: exp.site,
            fields: exp.fields.clone(),
            optional_string_fields: exp.optional.clone(),
            span: exp.span,
            lists: exp.lists.clone(),
        };
        let j = judge(&bytes, &self.cfg, &er, &self.spans, &self.th, &mut self.notes);
        let mut bad: Vec<&Mismatch> = vec![];
        let mut f8: Vec<(usize, &String)> = vec![];
        let mut inexact: Vec<(usize, &String)> = vec![];
        for i in &j.issues {
            match i {
                Issue::Bad(m) => bad.push(m),
                Issue::F8 { span, detail } => f8.push((*span, detail)),
                Issue::Inexact { span, detail } => inexact.push((*span, detail)),
            }
        }
        // evidence: what did this record exercise?
        let in_scope: Vec<usize> = {
            let mut v = exp.lists.first().cloned().unwrap_or_default();
            v.extend(exp.span);
            v.sort();
            v.dedup();
            v
        };
        let max_steps = in_scope.iter().map(|i| self.spans[*i].steps.len() - 1).max().unwrap_or(0);
        let name_escape = exp.fields.iter().any(|(n, _)| needs_escape(n))
            || in_scope.iter().any(|i| self.spans[*i].has_escaped_name() || needs_escape(&self.spans[*i].site.name))
            || needs_escape(&exp.site.target);
        if !in_scope.is_empty() {
            self.out.count("records_with_spans_in_scope", 1);
        }
        if max_steps > 0 {
            self.out.count("records_showing_later_recorded_span_fields", 1);
        }
        if name_escape || exp.escapes || max_steps > 0 {
            let mut kinds = exp.kinds.clone();
            kinds.sort();
            kinds.dedup();
            if kinds.is_empty() {
                kinds.push("no_fields");
            }
            // one signature per value kind present in the event
            for k in kinds {
                let sig = format!(
                    "{}{}{}|t{}|se{}|{k}|chain{}|steps{}|ne{}|ve{}|f8{}|{}",
                    self.cfg.flatten as u8,
                    self.cfg.cur_span as u8,
                    self.cfg.span_list as u8,
                    match &self.cfg.timer {
                        None => 0,
                        Some(None) => 1,
                        _ => 2,
                    },
                    (self.cfg.span_events != 0) as u8,
                    exp.lists.first().map(|l| l.len()).unwrap_or(0).min(3),
                    max_steps.min(3),
                    name_escape as u8,
                    exp.escapes as u8,
                    !f8.is_empty() as u8,
                    exp.site.origin,
                );
                self.out.distinct_str(&sig);
            }
        }
        if !bad.is_empty() {
            self.stop = true;
            let first = bad[0];
            if first.kind == "parser_disagreement" {
                self.out.inconclusive(format!("parsers disagree on a line (case {} shard {}): {}", self.case_idx, self.args.shard, first.detail));
                return;
            }
            let mut d = first.detail.clone();
            if d.len() > 300 {
                let mut i = 300;
                while !d.is_char_boundary(i) {
                    i += 1;
                }
                d.truncate(i);
                d.push('…');
            }
            let problems: Vec<String> = bad.iter().map(|m| format!("[{}] {}", m.kind, m.detail)).collect();
            let w = self.witness(op, &bytes, problems, Some(&exp));
            self.out.violation(format!("{}: {}", what_of(first.kind), d), w);
            return;
        }
        if !inexact.is_empty() {
            // candidate finding (not in DESIGN.md section 6): span f64 fields are re-parsed by
            // serde_json's default (non-round-tripping) float parser.  Witnesses travel in a set;
            // the parent raises them (see main_body.rs).
            self.out.count("records_with_an_inexact_span_float", 1);
            if *self.float_inexact_reported < 2 {
                *self.float_inexact_reported += 1;
                let problems: Vec<String> = inexact.iter().map(|(s, d)| format!("span #{s}: {d}")).collect();
                let w = self.witness(op, &bytes, problems, Some(&exp));
                self.out.set(FLOAT_SET, serde_json::to_string(&w).unwrap());
            }
        }
        if !f8.is_empty() {
            self.out.count("records_affected_by_F8", 1);
            let problems: Vec<String> = f8.iter().map(|(s, d)| format!("span #{s}: {d}")).collect();
            let w = self.witness(op, &bytes, problems, Some(&exp));
            self.out.finding(
                "F8",
                "JSON: a span with a field name that needs JSON escaping loses every field recorded after that name was stored (add_fields cannot borrow an escaped key)",
                w,
            );
        }
        if self.out.samples.len() < 3 && max_steps > 0 && name_escape && f8.is_empty() && self.case_idx % 7 == 3 {
            let line = String::from_utf8_lossy(&bytes).into_owned();
            self.out.sample(json!({"config": self.cfg.describe(), "operation": op, "line": line,
                "spans_in_scope": in_scope.iter().map(|i| self.spans[*i].describe()).collect::<Vec<_>>(),
                "expected_event_fields": exp.field_descr}));
        }
    }

    fn lifecycle(&self, i: usize, msg: &str, lists: Vec<Vec<usize>>) -> Option<(Vec<(String, Exp)>, Vec<Vec<usize>>)> {
        let bit = match msg {
            "new" => 1,
            "enter" => 2,
            "exit" => 4,
            _ => 8,
        };
        if self.cfg.span_events & bit == 0 {
            return None;
        }
        let _ = i;
        Some((vec![("message".to_string(), Exp::Str(vec![msg.to_string()]))], lists))
    }

    fn settle_lifecycle(&mut self, op: &str, i: usize, msg: &'static str, lists: Vec<Vec<usize>>) {
        match self.lifecycle(i, msg, lists) {
            None => self.settle(op, None),
            Some((fields, lists)) => {
                let site = self.spans[i].site.clone();
                self.out.count("lifecycle_records", 1);
                let exp = Expected {
                    site: &site,
                    field_descr: vec![format!("message = {msg:?} (synthesized span event)")],
                    fields,
                    optional: if msg == "close" { vec!["time.busy", "time.idle"] } else { vec![] },
                    span: Some(i),
                    lists,
                    kinds: vec!["lifecycle"],
                    escapes: false,
                };
                self.settle(op, Some(exp));
            }
        }
    }

    // ------------------------------------------------------------ operations

    fn op_new_span(&mut self, rng: &mut Rng, corpus: &Corpus) {
        let mut sx = if rng.bool() { site_from_macro(*rng.pick(&corpus.spans[..])) } else { site_dynamic(rng, true) };
        // values at creation: k of the n declared fields
        let p_empty = *rng.pick(&[0u64, 3, 5, 8, 10]);
        let vals: Vec<Val> =
            sx.slots.iter().map(|s| if *s == Slot::P && rng.chance(p_empty, 10) { Val::Empty } else { gen_val(rng, *s) }).collect();
        let cur = self.current();
        let (parent, how) = match sx.imp {
            Imp::Mac(_) => (cur, "contextual parent"),
            Imp::Dyn(_) => match rng.below(10) {
                0 | 1 if !self.spans.is_empty() => (Some(rng.usize(self.spans.len())), "explicit parent"),
                2 => (None, "explicit root"),
                _ => (cur, "contextual parent"),
            },
        };
        let idx = self.spans.len();
        let op = format!(
            "#{idx} = new span {:?} [{}; {how} {:?}] fields: {}",
            sx.m.name,
            sx.m.origin,
            parent,
            sx.m.fields.iter().zip(&vals).map(|(n, v)| format!("{n:?} = {}", v.describe())).collect::<Vec<_>>().join(", ")
        );
        self.ops.push(op.clone());
        let handle = match sx.imp {
            Imp::Mac(ms) => match call_macro(ms, &vals, None) {
                Ret::Span(s, line) => {
                    sx.m.line = Some(line);
                    s
                }
                _ => panic!("HARNESS: span site returned an event"),
            },
            Imp::Dyn(meta) => {
                let mut made = None;
                let vv: Vec<(usize, &Val)> = vals.iter().enumerate().collect();
                let pid = parent.and_then(|p| self.live[p].handle.as_ref().and_then(|h| h.id()));
                dyn_values(rng, meta, &vv, &mut |vs| {
                    made = Some(match how {
                        "explicit parent" => tracing::Span::child_of(pid.clone(), meta, vs),
                        "explicit root" => tracing::Span::new_root(meta, vs),
                        _ => tracing::Span::new(meta, vs),
                    })
                });
                made.expect("HARNESS: span not made")
            }
        };
        if handle.is_disabled() {
            panic!("HARNESS: span is disabled under a TRACE-level fmt collector");
        }
        self.out.count("spans_created", 1);
        self.out.count(if matches!(sx.imp, Imp::Mac(_)) { "spans_from_macro_corpus" } else { "spans_from_hand_built_callsites" }, 1);
        let step = Step {
            vals: vals.iter().enumerate().map(|(i, v)| (i, expect(v), v.describe())).collect(),
            how: "creation".into(),
        };
        for v in &vals {
            self.out.count(&format!("span_value_{}", v.kind()), 1);
        }
        if sx.m.fields.iter().any(|n| needs_escape(n)) {
            self.out.count("spans_with_a_field_name_needing_escape", 1);
        }
        self.spans.push(SpanM { site: sx.m, parent, steps: vec![step] });
        self.live.push(LiveSpan { handle: Some(handle), slots: sx.slots });
        let lists = vec![self.current_chain(), self.chain(idx)];
        self.settle_lifecycle(&op, idx, "new", lists);
    }

    fn op_enter(&mut self, rng: &mut Rng) -> bool {
        let cands: Vec<usize> = (0..self.spans.len()).filter(|i| !self.stack.iter().any(|(s, _)| s == i)).collect();
        if cands.is_empty() {
            return false;
        }
        // prefer the newest span: the history is about what shows up in events
        let i = if rng.chance(2, 3) { *cands.last().unwrap() } else { *rng.pick(&cands) };
        let op = format!("enter #{i}");
        self.ops.push(op.clone());
        let prev = self.current_chain();
        let e = self.live[i].handle.as_ref().unwrap().clone().entered();
        self.stack.push((i, e));
        self.out.count("enters", 1);
        let lists = vec![self.chain(i), prev];
        self.settle_lifecycle(&op, i, "enter", lists);
        true
    }

    fn op_exit(&mut self) -> bool {
        let Some((i, e)) = self.stack.pop() else { return false };
        let op = format!("exit #{i}");
        self.ops.push(op.clone());
        drop(e);
        let lists = vec![self.current_chain(), self.chain(i)];
        self.settle_lifecycle(&op, i, "exit", lists);
        true
    }

    fn op_record(&mut self, rng: &mut Rng) -> bool {
        let cands: Vec<usize> = (0..self.spans.len()).filter(|i| !self.spans[*i].site.fields.is_empty()).collect();
        if cands.is_empty() {
            return false;
        }
        // prefer spans that are in scope of the next event
        let scope = self.current_chain();
        let in_scope: Vec<usize> = cands.iter().copied().filter(|c| scope.contains(c)).collect();
        let i = if !in_scope.is_empty() && rng.chance(4, 5) { *rng.pick(&in_scope) } else { *rng.pick(&cands) };
        let nf = self.spans[i].site.fields.len();
        let recorded: Vec<bool> = (0..nf)
            .map(|f| self.spans[i].steps.iter().any(|s| s.vals.iter().any(|(ff, e, _)| *ff == f && !matches!(e, Exp::Absent))))
            .collect();
        let fresh: Vec<usize> = (0..nf).filter(|f| !recorded[*f]).collect();
        let many = rng.chance(3, 10);
        let want = if many { 1 + rng.usize(3.min(nf)) } else { 1 };
        let mut chosen: Vec<usize> = vec![];
        for _ in 0..want {
            let f = if !fresh.is_empty() && rng.chance(4, 5) { *rng.pick(&fresh) } else { rng.usize(nf) };
            if !chosen.contains(&f) {
                chosen.push(f);
            }
        }
        let vals: Vec<Val> = chosen.iter().map(|_| if rng.chance(1, 25) { Val::Empty } else { gen_val(rng, Slot::P) }).collect();
        let rerec = chosen.iter().zip(&vals).filter(|(f, v)| recorded[**f] && !matches!(v, Val::Empty)).count() as u64;
        let by_field = rng.chance(1, 4);
        let how = if many {
            "record_all(value set)"
        } else if by_field {
            "record(&Field, value)"
        } else {
            "record(\"name\", value)"
        };
        let op = format!(
            "span #{i}.{how}: {}",
            chosen.iter().zip(&vals).map(|(f, v)| format!("{:?} = {}", self.spans[i].site.fields[*f], v.describe())).collect::<Vec<_>>().join(", ")
        );
        self.ops.push(op.clone());
        {
            let handle = self.live[i].handle.as_ref().unwrap();
            let meta = handle.metadata().expect("HARNESS: enabled span without metadata");
            if many {
                let vv: Vec<(usize, &Val)> = chosen.iter().copied().zip(vals.iter()).collect();
                // (a value set may come from any callsite's field set; use the span's own)
                let meta_static: &'static Metadata<'static> = meta;
                dyn_values(rng, meta_static, &vv, &mut |vs| {
                    handle.record_all(vs);
                });
            } else {
                let h = hold(&vals[0], Slot::P);
                if by_field {
                    let field = meta.fields().iter().nth(chosen[0]).expect("HARNESS: field index");
                    handle.record(&field, h.value());
                } else {
                    let name: &str = &self.spans[i].site.fields[chosen[0]];
                    handle.record(name, h.value());
                }
            }
        }
        self.out.count("record_calls", 1);
        self.out.count("rerecords_of_an_already_recorded_field", rerec);
        for v in &vals {
            self.out.count(&format!("span_value_{}", v.kind()), 1);
        }
        self.spans[i].steps.push(Step {
            vals: chosen.iter().zip(&vals).map(|(f, v)| (*f, expect(v), v.describe())).collect(),
            how: op.clone(),
        });
        self.settle(&op, None);
        let _ = &self.live[i].slots;
        true
    }

    /// An event one of whose field values panics in its `Debug` impl; the caller catches the panic
    /// and the thread goes on.  Whatever was or was not written for the aborted record is not
    /// judged - the NEXT record of this thread is (it must not start with the aborted one's text).
    fn op_bomb_event(&mut self) {
        struct Bomb;
        struct BombPayload;
        impl std::fmt::Debug for Bomb {
            fn fmt(&self, _: &mut std::fmt::Formatter<'_>) -> std::fmt::Result {
                std::panic::panic_any(BombPayload)
            }
        }
        static QUIET: std::sync::Once = std::sync::Once::new();
        QUIET.call_once(|| {
            let prev = std::panic::take_hook();
            std::panic::set_hook(Box::new(move |info| {
                if info.payload().downcast_ref::<BombPayload>().is_none() {
                    prev(info);
                }
            }));
        });
        let op = "event!(before = 1, v = ?<a value whose Debug impl panics>) inside catch_unwind".to_string();
        self.ops.push(op);
        let r = std::panic::catch_unwind(std::panic::AssertUnwindSafe(|| {
            tracing::info!(target: "c14::bomb", before = 1u64, v = ?Bomb, "about to fail");
        }));
        match r {
            Err(p) if p.downcast_ref::<BombPayload>().is_some() => {}
            Err(p) => std::panic::resume_unwind(p),
            Ok(()) => {}
        }
        self.out.count("events_aborted_by_a_panicking_Debug_value(caught)", 1);
        let _ = self.writer.drain();
    }

    fn op_record_unknown(&mut self, rng: &mut Rng) -> bool {
        if self.spans.is_empty() {
            return false;
        }
        let i = rng.usize(self.spans.len());
        let name = format!("undeclared_{}", gen_plain(rng));
        if self.spans[i].site.fields.iter().any(|f| *f == name) {
            return false;
        }
        let op = format!("span #{i}.record({name:?}, 1) [not a declared field: documented to have no effect]");
        self.ops.push(op.clone());
        self.live[i].handle.as_ref().unwrap().record(name.as_str(), 1u64);
        self.out.count("record_calls_on_undeclared_names", 1);
        self.settle(&op, None);
        true
    }

    fn op_event(&mut self, rng: &mut Rng, corpus: &Corpus) {
        let mut sx = if rng.bool() { site_from_macro(*rng.pick(&corpus.events[..])) } else { site_dynamic(rng, false) };
        let vals: Vec<Val> =
            sx.slots.iter().map(|s| if *s == Slot::P && rng.chance(1, 20) { Val::Empty } else { gen_val(rng, *s) }).collect();
        let msg_text = sx.msg.map(|_| gen_string(rng));
        let explicit = matches!(sx.imp, Imp::Dyn(_)) && !self.spans.is_empty() && rng.chance(1, 10);
        let parent = if explicit { Some(rng.usize(self.spans.len())) } else { None };
        let mut descr: Vec<String> = sx.m.fields.iter().zip(&vals).map(|(n, v)| format!("{n:?} = {}", v.describe())).collect();
        let mut fields: Vec<(String, Exp)> = sx.m.fields.iter().zip(&vals).map(|(n, v)| (n.clone(), expect(v))).collect();
        let mut kinds: Vec<&'static str> = vals.iter().map(|v| v.kind()).collect();
        let mut escapes = vals.iter().any(|v| v.has_escape());
        if let (Some(prefix), Some(t)) = (sx.msg, &msg_text) {
            let full = format!("{prefix}{t}");
            descr.push(format!("message = format string {:?} with argument {t:?}", format!("{prefix}{{}}")));
            escapes |= needs_escape(&full);
            fields.push(("message".to_string(), Exp::Str(vec![full])));
            kinds.push("message");
        }
        let op = format!(
            "event [{}; target {:?}; level {}; {}] {}",
            sx.m.origin,
            sx.m.target,
            LEVELS[sx.m.level],
            match parent {
                Some(p) => format!("explicit parent #{p}"),
                None => "contextual".into(),
            },
            descr.join(", ")
        );
        self.ops.push(op.clone());
        match sx.imp {
            Imp::Mac(ms) => match call_macro(ms, &vals, msg_text.as_deref()) {
                Ret::Event(line) => sx.m.line = Some(line),
                _ => panic!("HARNESS: event site returned a span"),
            },
            Imp::Dyn(meta) => {
                let vv: Vec<(usize, &Val)> = vals.iter().enumerate().collect();
                let pid = parent.and_then(|p| self.live[p].handle.as_ref().and_then(|h| h.id()));
                dyn_values(rng, meta, &vv, &mut |vs| match &pid {
                    Some(id) => tracing::Event::child_of(id.clone(), meta, vs),
                    None => tracing::Event::dispatch(meta, vs),
                });
            }
        }
        self.out.count("events", 1);
        self.out.count(if matches!(sx.imp, Imp::Mac(_)) { "events_from_macro_corpus" } else { "events_from_hand_built_callsites" }, 1);
        for k in &kinds {
            self.out.count(&format!("event_value_{k}"), 1);
        }
        if sx.m.fields.iter().any(|n| needs_escape(n)) {
            self.out.count("events_with_a_field_name_needing_escape", 1);
        }
        let (span, lists) = match parent {
            Some(p) => (Some(p), vec![self.current_chain(), self.chain(p)]),
            None => (self.current(), vec![self.current_chain()]),
        };
        let site = sx.m;
        let exp = Expected { site: &site, fields, field_descr: descr, optional: vec![], span, lists, kinds, escapes };
        self.settle(&op, Some(exp));
    }

    fn teardown(&mut self) {
        while self.op_exit() {}
        for i in (0..self.live.len()).rev() {
            let op = format!("drop span #{i}");
            self.ops.push(op.clone());
            let h = self.live[i].handle.take();
            drop(h);
            let lists = vec![vec![], self.chain(i)];
            self.settle_lifecycle(&op, i, "close", lists);
        }
    }
}

/// One case, on the calling thread.
fn run_case(args: &Args, case_idx: u64, corpus: &Corpus, out: &mut Out, float_inexact_reported: &mut u64) {
    let mut rng = Rng::derive(args.seed, args.shard, case_idx);
    let cfg = gen_cfg(&mut rng);
    let writer = RecMake::default();
    // one case in eight writes to a sink that accepts only a prefix per `write` call
    let mut wrng = Rng::derive(args.seed ^ 0x5407, args.shard, case_idx);
    if wrng.chance(1, 8) {
        writer.1.store(*wrng.pick(&[1usize, 7, 64, 200]), std::sync::atomic::Ordering::Relaxed);
        out.count("cases_with_a_short_writing_sink", 1);
    }
    let dispatch = build_dispatch(&cfg, writer.clone());
    let t = std::thread::current();
    let th = ThreadInfo { name: t.name().map(String::from), id_debug: format!("{:?}", t.id()) };
    out.count("cases", 1);
    out.set(
        "option_combinations(flatten,current_span,span_list)",
        format!("{}{}{}", cfg.flatten as u8, cfg.cur_span as u8, cfg.span_list as u8),
    );
    let mut case = Case {
        cfg,
        writer,
        spans: vec![],
        live: vec![],
        stack: vec![],
        ops: vec![],
        th,
        notes: Notes::default(),
        out,
        args,
        case_idx,
        stop: false,
        float_inexact_reported,
    };
    let guard = tracing_core::dispatch::set_default(&dispatch);
    let max_spans = *rng.pick(&[0usize, 1, 1, 2, 2, 3, 4]);
    let nops = 5 + rng.usize(22);
    let res = run::catch(|| {
        let mut force_event = false;
        for _ in 0..nops {
            if case.stop {
                break;
            }
            if force_event {
                force_event = false;
                case.op_event(&mut rng, corpus);
                continue;
            }
            let can_new = case.spans.len() < max_spans;
            let idle = case.stack.is_empty() && !case.spans.is_empty();
            let w = [
                if can_new { 7 } else { 0 },                    // new span
                if idle { 12 } else { 3 },                      // enter
                if case.stack.is_empty() { 0 } else { 2 },      // exit
                if case.spans.is_empty() { 0 } else { 9 },      // record
                8,                                              // event
                if case.spans.is_empty() { 0 } else { 1 },      // record on an undeclared name
                1,                                              // event aborted by a panicking Debug value
            ];
            match rng.weighted(&w) {
                6 => case.op_bomb_event(),
                0 => case.op_new_span(&mut rng, corpus),
                1 => {
                    case.op_enter(&mut rng);
                }
                2 => {
                    case.op_exit();
                }
                3 => {
                    // "emit an event after each step"
                    if case.op_record(&mut rng) {
                        force_event = rng.chance(4, 5);
                    }
                }
                4 => case.op_event(&mut rng, corpus),
                _ => {
                    case.op_record_unknown(&mut rng);
                }
            }
        }
        if !case.stop && !case.spans.is_empty() && case.current().is_some() {
            case.op_event(&mut rng, corpus);
        }
        case.teardown();
    });
    drop(guard);
    if let Err(p) = res {
        if p.starts_with("HARNESS:") {
            eprintln!("{p} (case {case_idx}, shard {})", args.shard);
            std::process::exit(3);
        }
        let w = case.witness("(the operation at the end of the history)", &[], vec![format!("panic: {p}")], None);
        case.out.violation(format!("panic inside the JSON formatting stack: {}", p.chars().take(200).collect::<String>()), w);
        case.out.count("panics", 1);
    }
    // fold the oracle's notes into the counters
    let n = std::mem::take(&mut case.notes);
    let out = case.out;
    for (k, v) in [
        ("values_checked", n.values_checked),
        ("span_objects_checked", n.span_objects),
        ("bytes_as_number_array", n.bytes_array),
        ("bytes_as_debug_string", n.bytes_hex),
        ("raw_identifier_key_kept_r#", n.raw_kept),
        ("raw_identifier_key_stripped", n.raw_stripped),
        ("128bit_as_string", n.big_as_string),
        ("128bit_as_number", n.big_as_number),
        ("negative_zero_sign_kept", n.neg_zero_kept),
        ("negative_zero_sign_lost", n.neg_zero_lost),
        ("null_for_nonfinite_float", n.null_for_nonfinite),
        ("rerecorded_field_shows_latest_value", n.rerecord_latest),
        ("rerecorded_field_shows_an_older_value", n.rerecord_older),
        ("error_as_display_text", n.err_display),
        ("error_as_debug_text", n.err_debug),
        ("rerecorded_field_shows_an_older_value_in_a_span_without_escaped_names", n.rerecord_older_clean),
    ] {
        if v > 0 {
            out.count(k, v);
        }
    }
    out.max("ulps_of_an_inexact_span_float", n.max_ulps);
}
