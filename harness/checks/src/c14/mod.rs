// C14 support modules (values, generators, oracle); the binary is checks/src/bin/c14.rs
pub mod gen;
pub mod judge;
pub mod vals;
