// C14 orchestration (included by bin/c14.rs)

fn main() {
    let args = run::parse_args();
    match args.mode.clone() {
        Mode::Parent => parent(&args),
        Mode::Child(k) if k == "conc" => child_conc(&args),
        Mode::Child(_) => child(&args),
        Mode::Replay(p) => run::replay(ID, &p),
    }
}

const CASES_PER_SHARD: u64 = 2500;
/// set name under which children ship witnesses of inexact span floats
const FLOAT_SET: &str = "witnesses_inexact_span_float";
/// id under which that (new, not in DESIGN.md section 6) defect is reported; while it is not
/// listed in known_findings.json, `Out::finding` turns it into a VIOLATION
const FLOAT_ID: &str = "C14-FLOAT";

fn raise_float_findings(out: &mut Out) {
    if let Some(set) = out.sets.remove(FLOAT_SET) {
        // the shortest witnesses are the most readable ones
        let mut ws: Vec<&String> = set.iter().collect();
        ws.sort_by_key(|w| w.len());
        for w in ws.into_iter().take(2) {
            let w: serde_json::Value = serde_json::from_str(w).unwrap_or_else(|_| json!({"raw": w}));
            out.finding(
                FLOAT_ID,
                "JSON: a finite f64 recorded on a span comes out as a different number (a few ulp away; 1-8 observed): span fields are stored as text and \
                 re-parsed with serde_json's default float parser, which does not round-trip (json.rs SerializableSpan::serialize / add_fields)",
                w,
            );
        }
    }
}

fn parent(args: &Args) {
    let t0 = Instant::now();
    let mut out = Out::new();
    let shards = args.get_u64("shards", args.tier.pick(96, 1600));
    let cases = args.get_u64("cases", CASES_PER_SHARD);
    let spec = ChildSpec::new("hist", shards).arg("cases", cases).timeout(900);
    let ends = run::run_children(args, &spec, &mut out);
    run::classify_ends(&ends, &mut out, true);
    raise_float_findings(&mut out);
    // record calls on one span from several threads
    let cspec = ChildSpec::new("conc", args.get_u64("conc_shards", args.tier.pick(16, 64))).arg("rounds", args.get_u64("rounds", args.tier.pick(120, 1500))).timeout(900);
    let ends = run::run_children(args, &cspec, &mut out);
    run::classify_ends(&ends, &mut out, true);
    if out.sets.get("debug_assertions").map(|s| s.contains("true")).unwrap_or(false) {
        out.harness_errors.push("the release binary was built with debug assertions".into());
    }

    // thorough: the same workload on a build with the repository's debug assertions live
    let mut extra = Map::new();
    if let Ok(p) = std::env::var("VERIF_C14_DBG_BIN") {
        if !p.is_empty() {
            let mut d = Out::new();
            let dshards = args.get_u64("dbg_shards", args.tier.pick(16, 320));
            let mut dspec = ChildSpec::new("hist", dshards).arg("cases", cases).arg("stream", "dbg").timeout(1800);
            dspec.exe = Some(std::path::PathBuf::from(&p));
            let ends = run::run_children(args, &dspec, &mut d);
            run::classify_ends(&ends, &mut d, true);
            raise_float_findings(&mut d);
            if !d.sets.get("debug_assertions").map(|s| s.contains("true") && s.len() == 1).unwrap_or(false) {
                out.harness_errors.push(format!("VERIF_C14_DBG_BIN={p} is not a debug-assertions build (or produced nothing)"));
            }
            extra.insert(
                "debug_assertions_build".into(),
                json!({"binary": p, "evaluations": d.evals, "distinct": d.distinct.len(), "counters": d.counters}),
            );
            let dj = d.to_json();
            let evals = out.evals;
            out.merge_json(&json!({"viols": dj["viols"], "known": dj["known"], "inconclusive": dj["inconclusive"], "harness_errors": dj["harness_errors"]}));
            out.evals = evals + d.evals;
            for h in d.distinct {
                out.distinct.insert(h ^ 0x5a5a_5a5a_5a5a);
            }
        }
    }
    let q_evals = 96 * CASES_PER_SHARD * 9; // ~ what quick normally judges
    run::finish(
        Finish {
            id: ID,
            args,
            t0,
            rule: "evaluations = records (lines) judged: every event and every synthesized span-lifecycle record of seeded histories \
                   {new span with k of n fields, enter, exit, record/record_all (incl. re-records), event} under a random fmt().json() configuration; \
                   non-trivial = the record involves a field/span name, target or string value with a character JSON must escape, or shows a span \
                   with at least one record call after creation; distinct = distinct tuples (flatten,current_span,span_list, timer kind, span events on?, \
                   a value kind present in the event, span-list length (cap 3), max record steps of a span in scope (cap 3), name needs escape?, \
                   value needs escape?, F8-affected?, macro-corpus vs hand-built callsite) among those; plus the `conc` rounds: 2..4 threads record disjoint fields (1..3 times each, \
                   numbers / strings needing escapes / bools / slow Debug values) on clones of one span, then every written line and the span object of a later event are judged",
            assumptions: vec![
                "field names colliding with the formatter's own keys (timestamp, level, fields, target, filename, line_number, span, spans, threadName, threadId; \
                 name/field/field_error inside span objects; log.* names) or with each other after r#-stripping are not generated".into(),
                "a leading r# on a key is accepted stripped or not; bytes are accepted as a number array or as their Debug text; a re-recorded field must show its latest value unless the span has escaped field names (F8) or the key exists in both r# forms; \
                 for explicitly parented events and span-lifecycle records the span list may be either the entered scope or the parent's scope".into(),
                "non-finite floats are expected as null (serde_json's documented behaviour); errors as their Display (or Debug) text".into(),
                "the scoped default is installed per case on the test thread; no global default is ever set".into(),
            ],
            min_evals: q_evals / 4,
            min_distinct: 2000,
            exhaustive: false,
            extra,
        },
        out,
    );
}

// ---------------------------------------------------------------- self-check of the corpus table

struct CapMeta {
    is_span: bool,
    name: String,
    target: String,
    level: Level,
    file: Option<String>,
    line: Option<u32>,
    fields: Vec<String>,
}
#[derive(Default)]
struct Capture {
    log: Mutex<Vec<CapMeta>>,
    pad: u64,
}
impl Capture {
    fn push(&self, m: &Metadata<'_>) {
        self.log.lock().unwrap().push(CapMeta {
            is_span: m.is_span(),
            name: m.name().to_string(),
            target: m.target().to_string(),
            level: *m.level(),
            file: m.file().map(String::from),
            line: m.line(),
            fields: m.fields().iter().map(|f| f.name().to_string()).collect(),
        });
    }
}
impl tracing_core::Collect for Capture {
    fn enabled(&self, _: &Metadata<'_>) -> bool {
        true
    }
    fn new_span(&self, a: &tracing_core::span::Attributes<'_>) -> tracing_core::span::Id {
        self.push(a.metadata());
        tracing_core::span::Id::from_u64(1 + self.pad)
    }
    fn record(&self, _: &tracing_core::span::Id, _: &tracing_core::span::Record<'_>) {}
    fn record_follows_from(&self, _: &tracing_core::span::Id, _: &tracing_core::span::Id) {}
    fn event(&self, e: &tracing_core::Event<'_>) {
        self.push(e.metadata());
    }
    fn enter(&self, _: &tracing_core::span::Id) {}
    fn exit(&self, _: &tracing_core::span::Id) {}
    fn current_span(&self) -> tracing_core::span::Current {
        tracing_core::span::Current::none()
    }
}

/// Run every corpus site once under a metadata-capturing collector and compare what the
/// macros registered with the generator's table (a mismatch is a harness bug, not a finding).
fn self_check_corpus() {
    let cap = Arc::new(Capture::default());
    let d = Dispatch::new(SharedCap(cap.clone()));
    let _g = tracing_core::dispatch::set_default(&d);
    for (n, ms) in sites::SITES.iter().enumerate() {
        let vals: Vec<Val> = ms
            .fields
            .iter()
            .map(|(_, s)| match s {
                Slot::P => Val::U64(1),
                Slot::D => Val::Disp("d".into()),
                Slot::G => Val::Dbg(DbgV::Unit),
            })
            .collect();
        let line = match call_macro(ms, &vals, ms.msg.map(|_| "m")) {
            Ret::Span(_, l) => l,
            Ret::Event(l) => l,
        };
        let got = cap.log.lock().unwrap().pop().unwrap_or_else(|| panic!("HARNESS: corpus site {n} reached no collector"));
        let mut want: Vec<String> = ms.fields.iter().map(|(f, _)| f.to_string()).collect();
        let mut have = got.fields.clone();
        if ms.msg.is_some() {
            want.push("message".into());
        }
        want.sort();
        have.sort();
        let ok = got.is_span == ms.is_span
            && (!ms.is_span || got.name == ms.name)
            && got.target == ms.target
            && got.level == level_of(ms.level)
            && got.file.as_deref() == Some(ms.file)
            && got.line == Some(line)
            && want == have;
        if !ok {
            panic!(
                "HARNESS: corpus table and macro metadata disagree at site {n}: table name {:?} target {:?} level {} fields {:?} line {line}; \
                 macro name {:?} target {:?} level {} fields {:?} file {:?} line {:?}",
                ms.name, ms.target, ms.level, want, got.name, got.target, got.level, have, got.file, got.line
            );
        }
    }
}
struct SharedCap(Arc<Capture>);
impl tracing_core::Collect for SharedCap {
    fn enabled(&self, m: &Metadata<'_>) -> bool {
        self.0.enabled(m)
    }
    fn new_span(&self, a: &tracing_core::span::Attributes<'_>) -> tracing_core::span::Id {
        self.0.new_span(a)
    }
    fn record(&self, a: &tracing_core::span::Id, b: &tracing_core::span::Record<'_>) {
        self.0.record(a, b)
    }
    fn record_follows_from(&self, a: &tracing_core::span::Id, b: &tracing_core::span::Id) {
        self.0.record_follows_from(a, b)
    }
    fn event(&self, e: &tracing_core::Event<'_>) {
        self.0.event(e)
    }
    fn enter(&self, a: &tracing_core::span::Id) {
        self.0.enter(a)
    }
    fn exit(&self, a: &tracing_core::span::Id) {
        self.0.exit(a)
    }
    fn current_span(&self) -> tracing_core::span::Current {
        self.0.current_span()
    }
}

fn child(args: &Args) {
    let cases = args.get_u64("cases", CASES_PER_SHARD);
    let only = args.get("only").and_then(|s| s.parse::<u64>().ok());
    // the debug-assertion stream explores other histories than the release stream
    let stream_off = if args.get("stream") == Some("dbg") { 1u64 << 40 } else { 0 };
    let mut out = Out::new();
    out.set("debug_assertions", if cfg!(debug_assertions) { "true" } else { "false" });
    self_check_corpus();
    let corpus = corpus();
    out.set("corpus_sites", format!("{} span sites, {} event sites", corpus.spans.len(), corpus.events.len()));
    let mut float_inexact_reported = 0u64;
    let range: Vec<u64> = match only {
        Some(k) => vec![k],
        None => (0..cases).map(|c| c + stream_off).collect(),
    };
    for c in range {
        let mut rng = Rng::derive(args.seed ^ 0x7468_7265_6164, args.shard, c);
        let before = out.viols.len();
        match rng.below(8) {
            // a named thread (adversarial name) / an unnamed thread / this ("main") thread
            0 | 1 => {
                let name: String = gen_label(&mut rng).chars().filter(|ch| *ch != '\0').collect();
                std::thread::scope(|s| {
                    std::thread::Builder::new()
                        .name(name)
                        .spawn_scoped(s, || run_case(args, c, &corpus, &mut out, &mut float_inexact_reported))
                        .expect("HARNESS: spawn")
                        .join()
                        .expect("HARNESS: case thread panicked");
                });
                out.count("cases_on_a_named_thread", 1);
            }
            2 => {
                std::thread::scope(|s| {
                    s.spawn(|| run_case(args, c, &corpus, &mut out, &mut float_inexact_reported)).join().expect("HARNESS: case thread panicked");
                });
                out.count("cases_on_an_unnamed_thread", 1);
            }
            _ => run_case(args, c, &corpus, &mut out, &mut float_inexact_reported),
        }
        // a panic may leave thread-local formatter state behind: stop this shard's main-thread stream
        if out.viols.len() > before && out.counters.get("panics").copied().unwrap_or(0) > 0 {
            break;
        }
        if out.viols.len() >= run::MAX_VIOLS {
            break;
        }
    }
    if only.is_some() {
        // replay of a single case: raise the float finding here (normally the parent does)
        raise_float_findings(&mut out);
    }
    out.emit();
}
