// C14: record calls on one span issued from several threads (included by bin/c14.rs).
//
// "every history of span creation and later record calls" includes histories whose record
// calls are made through clones of the handle on other threads. Each thread records its own
// fields (no two threads write the same field, so there is no order to guess); once every
// thread has returned, every line written must be one valid JSON object and the span object of
// a later event must show every recorded field with its latest value.

struct SlowDbg(u64, u32);
impl std::fmt::Debug for SlowDbg {
    fn fmt(&self, f: &mut std::fmt::Formatter<'_>) -> std::fmt::Result {
        for _ in 0..self.1 {
            std::thread::yield_now();
        }
        write!(f, "slow\"{}\\", self.0)
    }
}

fn child_conc(args: &Args) {
    use std::sync::atomic::{AtomicU64, Ordering};
    use tracing::field::Empty;
    let rounds = args.get_u64("rounds", 120);
    let only = args.get("only").and_then(|s| s.parse::<u64>().ok());
    let mut out = Out::new();
    const NAMES: [&str; 8] = ["f0", "f1", "f2", "f3", "f4", "f5", "f6", "f7"];
    for r in 0..rounds {
        if let Some(o) = only {
            if o != r {
                continue;
            }
        }
        let mut rng = Rng::derive(args.seed ^ 0xC14C, args.shard, r);
        let nthreads = 2 + rng.usize(3);
        let flatten = rng.chance(1, 2);
        let mk = RecMake::default();
        let sub = tracing_subscriber::fmt()
            .json()
            .flatten_event(flatten)
            .with_current_span(true)
            .with_span_list(true)
            .with_max_level(tracing::Level::TRACE)
            .with_writer(mk.clone())
            .finish();
        let d = Dispatch::new(sub);
        let span = tracing::dispatch::with_default(&d, || {
            tracing::info_span!("shared", k = r, f0 = Empty, f1 = Empty, f2 = Empty, f3 = Empty, f4 = Empty, f5 = Empty, f6 = Empty, f7 = Empty)
        });
        // plan: field i belongs to thread i % nthreads; 1..3 records per field; value kinds vary
        #[derive(Clone, Debug)]
        enum V {
            U(u64),
            S(String),
            B(bool),
            D(u64, u32),
        }
        let mut plan: Vec<Vec<(usize, V)>> = vec![vec![]; nthreads];
        let mut latest: Vec<Option<V>> = vec![None; 8];
        let nfields = 2 + rng.usize(7);
        for i in 0..nfields {
            let t = i % nthreads;
            for _ in 0..1 + rng.usize(3) {
                let v = match rng.below(4) {
                    0 => V::U(rng.next_u64()),
                    1 => V::S(format!("s\"{}\\\n\u{2028}{}", rng.below(1000), i)),
                    2 => V::B(rng.chance(1, 2)),
                    _ => V::D(rng.below(1 << 40), rng.below(40) as u32),
                };
                plan[t].push((i, v.clone()));
                latest[i] = Some(v);
            }
        }
        for p in plan.iter_mut() {
            rng.shuffle(p);
        }
        // the latest value per field follows each thread's (shuffled) program order
        for l in latest.iter_mut() {
            *l = None;
        }
        for p in &plan {
            for (i, v) in p {
                latest[*i] = Some(v.clone());
            }
        }
        let inflight = AtomicU64::new(0);
        let max_inflight = AtomicU64::new(0);
        let barrier = std::sync::Barrier::new(nthreads);
        let panics: Vec<String> = std::thread::scope(|s| {
            let hs: Vec<_> = plan
                .iter()
                .map(|p| {
                    let span = span.clone();
                    let (inflight, max_inflight, barrier) = (&inflight, &max_inflight, &barrier);
                    s.spawn(move || {
                        barrier.wait();
                        for (i, v) in p {
                            let n = inflight.fetch_add(1, Ordering::SeqCst) + 1;
                            max_inflight.fetch_max(n, Ordering::SeqCst);
                            match v {
                                V::U(x) => span.record(NAMES[*i], *x),
                                V::S(x) => span.record(NAMES[*i], x.as_str()),
                                V::B(x) => span.record(NAMES[*i], *x),
                                V::D(x, n) => span.record(NAMES[*i], tracing::field::debug(SlowDbg(*x, *n))),
                            };
                            inflight.fetch_sub(1, Ordering::SeqCst);
                        }
                    })
                })
                .collect();
            hs.into_iter().filter_map(|h| h.join().err()).map(|p| run::panic_msg(&p)).collect()
        });
        let witness = |extra: serde_json::Value| {
            json!({"part": "conc", "round": r, "shard": args.shard, "threads": nthreads, "flatten_event": flatten,
                   "per_thread_records": plan.iter().map(|p| p.iter().map(|(i, v)| format!("{} = {v:?}", NAMES[*i])).collect::<Vec<_>>()).collect::<Vec<_>>(),
                   "detail": extra, "replay_hint": "child conc + only=<round>"})
        };
        if !panics.is_empty() {
            out.violation("panic in Span::record from concurrent threads", witness(json!({"panics": panics})));
            break;
        }
        tracing::dispatch::with_default(&d, || {
            let _e = span.enter();
            tracing::info!(round = r, "after the records");
        });
        drop(span);
        let lines = mk.drain();
        out.count("conc_rounds", 1);
        out.count("conc_record_calls", plan.iter().map(|p| p.len() as u64).sum());
        if max_inflight.load(Ordering::SeqCst) > 1 {
            out.count("conc_rounds_with_overlapping_record_calls", 1);
        }
        out.distinct_str(&format!("conc|t{nthreads}|f{nfields}|fl{flatten}|ov{}", max_inflight.load(Ordering::SeqCst).min(3)));
        let mut bad: Option<(String, serde_json::Value)> = None;
        let mut last: Option<vlib::json::J> = None;
        for l in &lines {
            out.evals += 1;
            let txt = String::from_utf8_lossy(l).to_string();
            let body = txt.strip_suffix('\n').unwrap_or(&txt);
            if !txt.ends_with('\n') || body.contains('\n') {
                bad = Some(("a write is not exactly one newline-terminated line".into(), json!({"bytes": txt})));
                break;
            }
            match vlib::json::parse(body) {
                Ok(j @ vlib::json::J::Obj(_)) => last = Some(j),
                Ok(_) => {
                    bad = Some(("a line is valid JSON but not an object".into(), json!({"line": body})));
                    break;
                }
                Err(e) => {
                    bad = Some((format!("a line is not valid JSON: {} at byte {}", e.msg, e.pos), json!({"line": body})));
                    break;
                }
            }
        }
        if bad.is_none() {
            match &last {
                None => bad = Some(("no record was written for the event".into(), json!({}))),
                Some(j) => {
                    let objs: Vec<(&str, Option<&vlib::json::J>)> = vec![("span", j.get("span")), ("spans[0]", j.get("spans").and_then(|a| a.as_arr()).and_then(|a| a.first()))];
                    'o: for (what, o) in objs {
                        let Some(o) = o else {
                            bad = Some((format!("the event's record has no `{what}` object"), json!({"record": format!("{j:?}")})));
                            break;
                        };
                        for (i, want) in latest.iter().enumerate() {
                            let Some(want) = want else { continue };
                            let got = o.get(NAMES[i]);
                            let ok = match (want, got) {
                                (V::U(x), Some(g)) => g.as_i128() == Some(*x as i128),
                                (V::S(x), Some(g)) => g.as_str() == Some(x.as_str()),
                                (V::B(x), Some(g)) => *g == vlib::json::J::Bool(*x),
                                (V::D(x, _), Some(g)) => g.as_str() == Some(format!("slow\"{x}\\").as_str()),
                                (_, None) => false,
                            };
                            if !ok {
                                bad = Some((
                                    "after record calls from several threads returned, the span object does not show a recorded field with its (latest) value".into(),
                                    json!({"object": what, "field": NAMES[i], "recorded (latest)": format!("{want:?}"), "shown": got.map(|g| format!("{g:?}")), "span_object": format!("{o:?}")}),
                                ));
                                break 'o;
                            }
                        }
                    }
                }
            }
        }
        if let Some((msg, extra)) = bad {
            out.violation(msg, witness(extra));
            if out.viols.len() >= 3 {
                break;
            }
        }
    }
    out.emit();
}
