// C08, part 3 (included by bin/c08.rs): enumeration plan, the two end-to-end runs, the judge,
// parent / child.

// ---------------------------------------------------------------------------------------
// complete enumeration of filter expressions by depth (every expression of depth exactly k
// appears exactly once: N_k = unary(N_{k-1}) + binary(N_{k-1} x E_{k-1}) + binary(E_{k-2} x N_{k-1}))

#[derive(Clone)]
struct ExprEnum {
    leaves: Vec<FE>,
    n: Vec<u64>,
    e: Vec<u64>,
}
fn unary(op: u64, x: FE) -> FE {
    match op {
        0 => FE::SomeF(bx(x)),
        1 => FE::Not(bx(x)),
        _ => FE::Reload(bx(x)),
    }
}
fn binary(op: u64, a: FE, b: FE) -> FE {
    match op {
        0 => FE::And(bx(a), bx(b)),
        _ => FE::Or(bx(a), bx(b)),
    }
}
impl ExprEnum {
    fn new(leaves: Vec<FE>, maxd: usize) -> Self {
        let l = leaves.len() as u64;
        let mut n = vec![l];
        let mut e = vec![l];
        for k in 1..=maxd {
            let nk1 = n[k - 1];
            let ek1 = e[k - 1];
            let ek2 = if k >= 2 { e[k - 2] } else { 0 };
            let nk = 3 * nk1 + 2 * nk1 * ek1 + 2 * ek2 * nk1;
            n.push(nk);
            e.push(ek1 + nk);
        }
        ExprEnum { leaves, n, e }
    }
    fn total(&self) -> u64 {
        *self.e.last().unwrap()
    }
    fn get(&self, i: u64) -> FE {
        let mut k = 0;
        while i >= self.e[k] {
            k += 1;
        }
        let j = if k == 0 { i } else { i - self.e[k - 1] };
        self.new_at(k, j)
    }
    fn new_at(&self, k: usize, j: u64) -> FE {
        if k == 0 {
            return self.leaves[j as usize].clone();
        }
        let nk1 = self.n[k - 1];
        let ek1 = self.e[k - 1];
        let ek2 = if k >= 2 { self.e[k - 2] } else { 0 };
        if j < 3 * nk1 {
            return unary(j / nk1, self.new_at(k - 1, j % nk1));
        }
        let j = j - 3 * nk1;
        if j < 2 * nk1 * ek1 {
            let op = j / (nk1 * ek1);
            let r = j % (nk1 * ek1);
            return binary(op, self.new_at(k - 1, r / ek1), self.get(r % ek1));
        }
        let j = j - 2 * nk1 * ek1;
        let op = j / (ek2 * nk1);
        let r = j % (ek2 * nk1);
        binary(op, self.get(r / nk1), self.new_at(k - 1, r % nk1))
    }
    /// "comb" expressions one level deeper: unary(N_max) + binary(N_max x leaf) + binary(leaf x N_max)
    fn comb_total(&self) -> u64 {
        let nm = *self.n.last().unwrap();
        3 * nm + 4 * nm * self.leaves.len() as u64
    }
    fn comb(&self, j: u64) -> FE {
        let k = self.n.len() - 1;
        let nm = self.n[k];
        let l = self.leaves.len() as u64;
        if j < 3 * nm {
            return unary(j / nm, self.new_at(k, j % nm));
        }
        let j = j - 3 * nm;
        if j < 2 * nm * l {
            let op = j / (nm * l);
            let r = j % (nm * l);
            return binary(op, self.new_at(k, r / l), self.leaves[(r % l) as usize].clone());
        }
        let j = j - 2 * nm * l;
        let op = j / (nm * l);
        let r = j % (nm * l);
        binary(op, self.leaves[(r / nm) as usize].clone(), self.new_at(k, r % nm))
    }
}

// ---------------------------------------------------------------------------------------
// layer alphabets

fn flt_atoms(tier: run::Tier) -> Vec<FE> {
    let mut v = vec![
        FE::Level(3),
        FE::Env(6),
        FE::Dyn(0),
        FE::Fn(1),
        FE::Not(bx(FE::Level(2))),
        FE::Env(11),
        FE::Targets(5),
    ];
    if tier == run::Tier::Thorough {
        v.extend([FE::NoneF, FE::Dyn(3), FE::Targets(2), FE::Or(bx(FE::Level(1)), bx(FE::Dyn(0)))]);
    }
    v
}
fn glob_atoms(tier: run::Tier) -> Vec<GE> {
    let mut v = vec![GE::Level(4), GE::Env(10), GE::Fn(0), GE::Dyn(1)];
    if tier == run::Tier::Thorough {
        v.extend([GE::Targets(3), GE::Env(2)]);
    }
    v
}
fn tree_filters() -> Vec<FE> {
    vec![FE::Level(3), FE::Dyn(0), FE::Env(5)]
}
fn atoms(tier: run::Tier, with_filtered: bool) -> Vec<LS> {
    let mut v = vec![LS::Rec, LS::NoneL];
    if with_filtered {
        v.extend(flt_atoms(tier).into_iter().map(LS::Flt));
    }
    v.extend(glob_atoms(tier).into_iter().map(LS::Glob));
    v
}
/// level-1 layers over a set of atoms: atoms, Some(atom), Vec of 0..=2 atoms (ordered),
/// and_then of two atoms, a filtered tree around {rec, filtered} atoms and around and_then
/// of the first three of those
fn l1_set(at: &[LS], fts: &[FE]) -> Vec<LS> {
    let mut v: Vec<LS> = at.to_vec();
    v.extend(at.iter().map(|a| LS::SomeL(Box::new(a.clone()))));
    v.push(LS::VecL(vec![]));
    v.extend(at.iter().map(|a| LS::VecL(vec![a.clone()])));
    for a in at {
        for b in at {
            v.push(LS::VecL(vec![a.clone(), b.clone()]));
        }
    }
    for a in at {
        for b in at {
            v.push(LS::AndThen(Box::new(a.clone()), Box::new(b.clone())));
        }
    }
    let inner: Vec<&LS> = at.iter().filter(|a| matches!(a, LS::Rec | LS::Flt(_))).collect();
    for a in &inner {
        for f in fts {
            v.push(LS::FltTree(Box::new((*a).clone()), f.clone()));
        }
    }
    for a in inner.iter().take(3) {
        for b in inner.iter().take(3) {
            for f in fts {
                v.push(LS::FltTree(Box::new(LS::AndThen(Box::new((*a).clone()), Box::new((*b).clone()))), f.clone()));
            }
        }
    }
    v
}
/// a mid-size subset of level-1 layers for length-3 lists
fn l1_mid(at: &[LS], fts: &[FE]) -> Vec<LS> {
    let full = l1_set(at, fts);
    let keep = |l: &LS| match l {
        LS::VecL(v) if v.len() == 2 => matches!((&v[0], &v[1]), (LS::Flt(_), LS::Rec) | (LS::Rec, LS::Flt(_)) | (LS::NoneL, LS::Rec) | (LS::Glob(_), LS::Rec)),
        LS::AndThen(a, b) => matches!((&**a, &**b), (LS::Flt(_), LS::Rec) | (LS::Rec, LS::Flt(_)) | (LS::NoneL, LS::Rec) | (LS::Rec, LS::NoneL) | (LS::Glob(_), LS::Rec)),
        LS::FltTree(x, _) => matches!(&**x, LS::Rec | LS::Flt(_)),
        LS::SomeL(x) => matches!(&**x, LS::Rec | LS::Flt(_) | LS::NoneL),
        _ => true,
    };
    full.into_iter().filter(keep).collect()
}

// ---------------------------------------------------------------------------------------
// plan: one global index space of units

enum Seg {
    Expr(ExprEnum),
    Comb(ExprEnum),
    Seq { bases: Vec<Base>, set: Vec<LS>, len: usize },
    L2 { l1: Vec<LS>, fts: Vec<FE> },
    Rand,
}
struct Plan {
    segs: Vec<(String, Seg, u64)>,
    seed: u64,
}
impl Plan {
    fn new(args: &Args) -> Plan {
        let tier = args.tier;
        let thorough = tier == run::Tier::Thorough;
        let mut segs: Vec<(String, Seg, u64)> = vec![];
        let mut push = |name: &str, s: Seg| {
            let n = match &s {
                Seg::Expr(e) => e.total(),
                Seg::Comb(e) => e.comb_total(),
                Seg::Seq { bases, set, len } => bases.len() as u64 * (set.len() as u64).pow(*len as u32),
                Seg::L2 { l1, fts } => {
                    let n = l1.len() as u64;
                    n + 2 * n * n + n * fts.len() as u64
                }
                Seg::Rand => 0,
            };
            segs.push((name.to_string(), s, n));
        };
        // filter expressions, each as Registry.with(rec.with_filter(X)), with direct calls
        push("expr depth<=1 over all leaves", Seg::Expr(ExprEnum::new(all_leaves(), 1)));
        let alpha = args.get("alpha").unwrap_or(if thorough { "wide" } else { "core" });
        let leaves2 = match alpha {
            "full" => all_leaves(),
            "wide" => wide_leaves(),
            "mid" => mid_leaves(),
            "small" => small_leaves(),
            _ => core_leaves(),
        };
        push(&format!("expr depth<=2 over the {alpha} alphabet ({} leaves)", leaves2.len()), Seg::Expr(ExprEnum::new(leaves2, 2)));
        if thorough {
            push("expr depth 3 comb-shaped over the small alphabet (6 leaves)", Seg::Comb(ExprEnum::new(small_leaves(), 2)));
        }
        // stacks
        let fts = tree_filters();
        let at_r = atoms(tier, true);
        let at_p = atoms(tier, false);
        let l1r = l1_set(&at_r, &fts);
        let l1p = l1_set(&at_p, &[]);
        let plain: Vec<Base> = (0..PSPECS.len()).map(Base::Plain).collect();
        push("Registry + 1 level-1 layer", Seg::Seq { bases: vec![Base::Reg], set: l1r.clone(), len: 1 });
        push("Registry + 2 level-1 layers", Seg::Seq { bases: vec![Base::Reg], set: l1r.clone(), len: 2 });
        push("plain collector + 1 level-1 layer", Seg::Seq { bases: plain.clone(), set: l1p.clone(), len: 1 });
        push("plain collector + 2 level-1 layers", Seg::Seq { bases: plain.clone(), set: l1p.clone(), len: 2 });
        if thorough {
            let q_r = atoms(run::Tier::Quick, true);
            let q_p = atoms(run::Tier::Quick, false);
            push("Registry + 3 layers (mid set)", Seg::Seq { bases: vec![Base::Reg], set: l1_mid(&q_r, &fts), len: 3 });
            push("plain collector + 3 layers (mid set)", Seg::Seq { bases: plain.clone(), set: l1_mid(&q_p, &[]), len: 3 });
            push("Registry + 1 level-2 layer", Seg::L2 { l1: l1_set(&q_r, &fts), fts: fts.clone() });
        } else {
            push("Registry + 3 atoms", Seg::Seq { bases: vec![Base::Reg], set: at_r.clone(), len: 3 });
            push("plain collector + 3 atoms", Seg::Seq { bases: plain.clone(), set: at_p.clone(), len: 3 });
        }
        let nr = args.get_u64("rand", tier.pick(20_000, 400_000));
        segs.push(("seeded random deeper expressions / stacks".into(), Seg::Rand, nr));
        Plan { segs, seed: args.seed }
    }
    fn total(&self) -> u64 {
        self.segs.iter().map(|s| s.2).sum()
    }
    fn exhaustive_total(&self) -> u64 {
        self.segs.iter().filter(|s| !matches!(s.1, Seg::Rand)).map(|s| s.2).sum()
    }
    /// (segment index, spec, direct calls?)
    fn unit(&self, mut i: u64) -> (usize, StackSpec, bool) {
        for (si, (_, seg, n)) in self.segs.iter().enumerate() {
            if i >= *n {
                i -= *n;
                continue;
            }
            let single = |fe: FE| StackSpec { base: Base::Reg, layers: vec![LS::Flt(fe)] };
            return match seg {
                Seg::Expr(e) => (si, single(e.get(i)), true),
                Seg::Comb(e) => (si, single(e.comb(i)), true),
                Seg::Seq { bases, set, len } => {
                    let s = set.len() as u64;
                    let mut r = i;
                    let mut layers = vec![];
                    for _ in 0..*len {
                        layers.push(set[(r % s) as usize].clone());
                        r /= s;
                    }
                    layers.reverse();
                    (si, StackSpec { base: bases[r as usize], layers }, false)
                }
                Seg::L2 { l1, fts } => {
                    let n = l1.len() as u64;
                    let l = if i < n {
                        LS::SomeL(Box::new(l1[i as usize].clone()))
                    } else if i < n + n * n {
                        let r = i - n;
                        LS::VecL(vec![l1[(r / n) as usize].clone(), l1[(r % n) as usize].clone()])
                    } else if i < n + 2 * n * n {
                        let r = i - n - n * n;
                        LS::AndThen(Box::new(l1[(r / n) as usize].clone()), Box::new(l1[(r % n) as usize].clone()))
                    } else {
                        let r = i - n - 2 * n * n;
                        LS::FltTree(Box::new(l1[(r / fts.len() as u64) as usize].clone()), fts[(r % fts.len() as u64) as usize].clone())
                    };
                    (si, StackSpec { base: Base::Reg, layers: vec![l] }, false)
                }
                Seg::Rand => {
                    let mut rng = Rng::derive(self.seed, 0xC08, i);
                    if rng.chance(1, 3) {
                        (si, single(rand_fe(&mut rng, 3 + rng_depth_bonus(i))), true)
                    } else {
                        (si, rand_stack(&mut rng), false)
                    }
                }
            };
        }
        panic!("HARNESS: unit index out of range");
    }
}
fn rng_depth_bonus(i: u64) -> usize {
    (i % 2) as usize
}
fn rand_fe(rng: &mut Rng, depth: usize) -> FE {
    let leaves = all_leaves();
    if depth == 0 || rng.chance(1, 4) {
        return rng.pick(&leaves).clone();
    }
    match rng.below(5) {
        0 => unary(rng.below(3), rand_fe(rng, depth - 1)),
        1 => unary(1, rand_fe(rng, depth - 1)),
        k => binary(k % 2, rand_fe(rng, depth - 1), rand_fe(rng, depth - 1)),
    }
}
fn rand_ge(rng: &mut Rng) -> GE {
    match rng.below(5) {
        0 => GE::Level(rng.usize(6)),
        1 => GE::Targets(rng.usize(TARGET_TABLES.len())),
        2 => GE::Env(rng.usize(ENVS.len())),
        3 => GE::Fn(rng.usize(5)),
        _ => GE::Dyn(rng.usize(6)),
    }
}
fn rand_ls(rng: &mut Rng, depth: usize, filtered: bool) -> LS {
    let atom = |rng: &mut Rng| match rng.below(if filtered { 8 } else { 5 }) {
        0 | 1 => LS::Rec,
        2 => LS::NoneL,
        3 | 4 => LS::Glob(rand_ge(rng)),
        _ => LS::Flt(rand_fe(rng, 2)),
    };
    if depth == 0 || rng.chance(1, 3) {
        return atom(rng);
    }
    match rng.below(if filtered { 5 } else { 4 }) {
        0 => LS::SomeL(Box::new(rand_ls(rng, depth - 1, filtered))),
        1 => {
            let n = rng.usize(4);
            LS::VecL((0..n).map(|_| rand_ls(rng, depth - 1, filtered)).collect())
        }
        2 | 3 => LS::AndThen(Box::new(rand_ls(rng, depth - 1, filtered)), Box::new(rand_ls(rng, depth - 1, filtered))),
        _ => LS::FltTree(Box::new(rand_ls(rng, depth - 1, filtered)), rand_fe(rng, 1)),
    }
}
fn rand_stack(rng: &mut Rng) -> StackSpec {
    let reg = rng.chance(3, 4);
    let base = if reg { Base::Reg } else { Base::Plain(rng.usize(PSPECS.len())) };
    let n = 1 + rng.usize(MAX_LIST);
    let layers = (0..n).map(|_| rand_ls(rng, 2, reg)).collect();
    StackSpec { base, layers }
}

// ---------------------------------------------------------------------------------------
// one unit: build, cached run, uncached run

const SLOT_CTX: u64 = 200;
const SLOT_PROBE: u64 = 201;
fn op_id(run: usize, ctx: usize, slot: u64) -> u64 {
    1 + ((run * NCTX + ctx) as u64) * 256 + slot
}

struct UnitObs {
    top: Arc<SpyLog>,
    spies: Vec<Arc<SpyLog>>,
    /// [run][ctx][uidx] -> bit mask of recorders
    recv: Vec<Vec<[u64; NU]>>,
    ctx_recv: [[u64; NCTX]; 2],
    /// was the context span enabled (created) in that run?
    ctx_alive: [[bool; NCTX]; 2],
    n_recorders: u8,
    plain_base: bool,
}

fn emit_all(d: &Dispatch, sh: &Shared, run: usize, order: &[usize], with_probe: bool) -> [bool; NCTX] {
    let mut alive = [false; NCTX];
    dispatch::with_default(d, || {
        for c in 0..NCTX {
            sh.ctx.store(c, Ordering::Relaxed);
            let sp = ctx_span(c, op_id(run, c, SLOT_CTX));
            alive[c] = sp.as_ref().map_or(false, |s| !s.is_disabled());
            {
                let _g = sp.as_ref().map(|s| s.enter());
                if with_probe {
                    probe(op_id(run, c, SLOT_PROBE));
                }
                for &u in order {
                    drop(emit_u(u, op_id(run, c, u as u64)));
                }
            }
            drop(sp);
        }
        sh.ctx.store(0, Ordering::Relaxed);
    });
    alive
}

fn warm_up() {
    static ONCE: std::sync::Once = std::sync::Once::new();
    ONCE.call_once(|| {
        let _ = leaked_universe();
        let d = Dispatch::new(Dummy { _pad: 3 });
        dispatch::with_default(&d, || {
            for c in 0..NCTX {
                drop(ctx_span(c, 0));
            }
            probe(0);
            for u in 0..NU {
                drop(emit_u(u, 0));
            }
        });
    });
}

fn run_unit(spec: &StackSpec, direct: bool, rng: &mut Rng) -> UnitObs {
    let sh = Arc::new(Shared {
        deliveries: Mutex::new(Vec::with_capacity(2048)),
        run: AtomicUsize::new(0),
        ctx: AtomicUsize::new(0),
        spans: AtomicU64::new(0),
    });
    let env = BuildEnv {
        sh: sh.clone(),
        spies: RefCell::new(vec![]),
        next_rec: Cell::new(0),
        direct,
        top: RefCell::new(None),
    };
    let d = build_stack(spec, &env);
    let top = env.top.borrow().clone().expect("HARNESS: no top log");
    // end-to-end reading of the hint: with only this dispatcher alive the global max level
    // must be the stack's own hint
    {
        let h = top.st.lock().unwrap().hint;
        let cur = hint_rank(Some(LevelFilter::current())).unwrap();
        let want = h.expect("HARNESS: max_level_hint of the stack was never asked").unwrap_or(5);
        assert!(
            cur == want,
            "HARNESS: LevelFilter::current() = {} but the only live stack's hint is {} (another dispatcher alive?)",
            LEVEL_NAMES[cur],
            LEVEL_NAMES[want]
        );
    }
    let mut order: Vec<usize> = (0..NU).collect();
    rng.shuffle(&mut order);
    let alive0 = emit_all(&d, &sh, 0, &order, false);
    sh.run.store(1, Ordering::Relaxed);
    let dummy = Dispatch::new(Dummy { _pad: 5 });
    assert!(LevelFilter::current() == LevelFilter::TRACE, "HARNESS: dummy dispatcher did not raise the max level");
    let alive1 = emit_all(&d, &sh, 1, &order, direct);
    drop(dummy);
    drop(d);
    let mut recv = vec![vec![[0u64; NU]; NCTX]; 2];
    let mut ctx_recv = [[0u64; NCTX]; 2];
    for (idx, id) in sh.deliveries.lock().unwrap().iter() {
        if *id == 0 {
            panic!("HARNESS: delivery without an id field");
        }
        let x = id - 1;
        let slot = x % 256;
        let rc = (x / 256) as usize;
        let (run, c) = (rc / NCTX, rc % NCTX);
        assert!(run < 2, "HARNESS: bad op id {id}");
        if slot == SLOT_CTX {
            ctx_recv[run][c] |= 1 << idx;
        } else if (slot as usize) < NU {
            recv[run][c][slot as usize] |= 1 << idx;
        }
    }
    let spies = env.spies.borrow().clone();
    UnitObs {
        top,
        spies,
        recv,
        ctx_recv,
        ctx_alive: [alive0, alive1],
        n_recorders: env.next_rec.get(),
        plain_base: matches!(spec.base, Base::Plain(_)),
    }
}

// ---------------------------------------------------------------------------------------
// judge

#[derive(Clone, Copy, PartialEq, Eq, Hash, PartialOrd, Ord, Debug)]
enum DK {
    FilterNever,
    FilterHint,
    FilterAlways,
    StackNever,
    StackHint,
    StackAlwaysRejected,
    StackCachedNeUncached,
    StackDeliveredAgainstSummary,
    StackSometimesDiffers,
    SummaryChanged,
}
impl DK {
    fn text(self) -> &'static str {
        match self {
            DK::FilterNever => "filter summary is `never` but its enabled()/event_enabled() accepts",
            DK::FilterHint => "filter's max_level_hint is below a level its enabled() accepts",
            DK::FilterAlways => "filter summary is `always` but its enabled()/event_enabled() rejects",
            DK::StackNever => "stack's register_callsite is `never` but a recording layer receives the emission on the uncached path",
            DK::StackHint => "stack's max_level_hint is below the level of an emission a recording layer receives on the uncached path",
            DK::StackAlwaysRejected => "stack's register_callsite is `always` but its enabled()/event_enabled() rejects",
            DK::StackCachedNeUncached => "stack's register_callsite is `always` but the cached path and the uncached path reach different recording layers",
            DK::StackDeliveredAgainstSummary => "a layer received an emission on the cached path although the stack's summary is never / hint too low",
            DK::StackSometimesDiffers => "summary `sometimes` (enabled() asked on both paths) but the two runs reach different recording layers",
            DK::SummaryChanged => "the summary changed between two rebuilds of the interest cache",
        }
    }
}
fn mask_list(m: u64) -> Vec<String> {
    (0..64).filter(|b| m & (1 << b) != 0).map(|b| if b == PLAIN_IDX as u64 { "plain-collector".to_string() } else { format!("rec#{b}") }).collect()
}

struct Group {
    kind: DK,
    fid: Option<&'static str>,
    scope: String,
    count: u64,
    examples: Vec<J>,
}
fn add_div(groups: &mut Vec<Group>, kind: DK, fid: Option<&'static str>, scope: &str, ex: impl FnOnce() -> J) {
    if let Some(g) = groups.iter_mut().find(|g| g.kind == kind && g.fid == fid && g.scope == scope) {
        g.count += 1;
        if g.examples.len() < 3 {
            g.examples.push(ex());
        }
        return;
    }
    groups.push(Group {
        kind,
        fid,
        scope: scope.to_string(),
        count: 1,
        examples: vec![ex()],
    });
}

fn judge(idx: u64, seg: &str, spec: &StackSpec, o: &UnitObs, out: &mut Out) {
    let mut groups: Vec<Group> = vec![];
    let stack_envs = spec.envs();
    let has_empty_vec = spec.layers.iter().any(|l| l.has_empty_vec());
    let f14 = |envs: &[usize], u: usize| envs.iter().any(|e| f14_sig(*e, um(u)));

    // ---- every filter / global filter layer: its own summary against its own dynamic answers
    for s in &o.spies {
        let st = s.st.lock().unwrap();
        let hint = st.hint.unwrap_or(None);
        if st.interest[0] != st.interest[1] && st.interest[1].iter().any(|x| *x != 255) {
            for u in 0..NX {
                let (a, b) = (st.interest[0][u], st.interest[1][u]);
                if a != b && a != 255 && b != 255 {
                    add_div(&mut groups, DK::SummaryChanged, None, &s.desc, || json!({"metadata": um_json(u), "first": iname(a), "second": iname(b)}));
                }
            }
        }
        // observed calls (both runs; the real protocol order: registered first)
        let mut ev_false: std::collections::HashSet<(u8, u8, u16)> = Default::default();
        for e in &st.ev_false {
            ev_false.insert(*e);
        }
        for &(run, c, u, en) in &st.calls {
            let u = u as usize;
            let acc = en && !ev_false.contains(&(run, c, u as u16));
            let si = st.interest[(run as usize).min(1)][u];
            let si = if si == 255 { st.interest[0][u] } else { si };
            out.evals += 1;
            let lvl = um(u).level;
            let mk = |dynamic: &str| {
                json!({"via": "observed during the end-to-end run", "scope": s.what, "filter": s.desc, "metadata": um_json(u),
                       "context": CTX_NAMES[c as usize], "summary_interest": iname(si), "summary_hint": hname(hint), "dynamic": dynamic})
            };
            if si == 0 {
                out.count("premise_filter_never", 1);
                if acc {
                    let fid = if f14(&s.envs, u) { Some("F14") } else { None };
                    add_div(&mut groups, DK::FilterNever, fid, &s.desc, || mk("enabled() = true"));
                }
            }
            if let Some(h) = hint {
                if lvl > h {
                    out.count("premise_filter_hint", 1);
                    if acc {
                        add_div(&mut groups, DK::FilterHint, None, &s.desc, || mk("enabled() = true"));
                    }
                }
            }
            if si == 2 {
                out.count("premise_filter_always", 1);
                if !acc {
                    let fid = if f14(&s.envs, u) { Some("F14") } else { None };
                    add_div(&mut groups, DK::FilterAlways, fid, &s.desc, || mk(if en { "event_enabled() = false" } else { "enabled() = false" }));
                }
            }
        }
        // direct calls on leaked metadata with the real Context (single .with_filter stacks)
        if !st.d_interest.is_empty() {
            let dh = st.d_hint.unwrap_or(None);
            out.count("direct_contexts_swept", st.d_acc.len() as u64);
            for (c, acc) in &st.d_acc {
                for u in 0..NU {
                    out.evals += 1;
                    out.count("direct_cases", 1);
                    let si = st.d_interest[u];
                    let a = acc[u];
                    let lvl = um(u).level;
                    let mk = |dynamic: &str| {
                        json!({"via": "direct trait calls on leaked static metadata with the Context handed to the filter", "filter": s.desc,
                               "metadata": um_json(u), "context": CTX_NAMES[*c as usize], "summary_interest": iname(si),
                               "summary_hint": hname(dh), "dynamic": dynamic})
                    };
                    if si == 0 && a {
                        let fid = if f14(&s.envs, u) { Some("F14") } else { None };
                        add_div(&mut groups, DK::FilterNever, fid, &s.desc, || mk("enabled() && event_enabled() = true"));
                    }
                    if let Some(h) = dh {
                        if lvl > h && a {
                            add_div(&mut groups, DK::FilterHint, None, &s.desc, || mk("enabled() && event_enabled() = true"));
                        }
                    }
                    if si == 2 && !a {
                        let fid = if f14(&s.envs, u) { Some("F14") } else { None };
                        add_div(&mut groups, DK::FilterAlways, fid, &s.desc, || mk("enabled() && event_enabled() = false"));
                    }
                }
            }
        }
    }

    // ---- the whole stack
    let top = o.top.st.lock().unwrap();
    let hint = top.hint.unwrap_or(None);
    let ti = &top.interest[0];
    for u in 0..NX {
        let (a, b) = (ti[u], top.interest[1][u]);
        if a == 255 || b == 255 {
            panic!("HARNESS: the stack was not asked register_callsite for universe entry {u} (phase0 {a}, phase1 {b})");
        }
        if a != b {
            add_div(&mut groups, DK::SummaryChanged, None, "whole stack", || json!({"metadata": um_json(u), "first": iname(a), "second": iname(b)}));
        }
    }
    let mut top_rej: std::collections::HashMap<(u8, u16), &'static str> = Default::default();
    for &(run, c, u, en) in &top.calls {
        if run == 1 && !en {
            top_rej.insert((c, u), "enabled() = false");
        }
    }
    for &(run, c, u) in &top.ev_false {
        if run == 1 {
            top_rej.entry((c, u)).or_insert("event_enabled() = false");
        }
    }
    let none_in_composite = spec.layers.iter().any(|l| l.has_none_in_composite());
    for c in 0..NCTX {
        let ctx_differs = o.ctx_recv[0][c] != o.ctx_recv[1][c] || o.ctx_alive[0][c] != o.ctx_alive[1][c];
        if ctx_differs {
            out.count("contexts_that_differ_between_the_runs", 1);
        }
        // the context span of this context first (created outside, judged like any other span), then the universe
        let entries = (if c > 0 { Some(NU + c - 1) } else { None }).into_iter().chain(0..NU);
        for u in entries {
            out.evals += 1;
            let m = um(u);
            let is_ctx_span = u >= NU;
            let (rc, ru) = if is_ctx_span { (o.ctx_recv[0][c], o.ctx_recv[1][c]) } else { (o.recv[0][c][u], o.recv[1][c][u]) };
            let skip_c = ctx_differs && !is_ctx_span;
            let si = ti[u];
            let hint_blocks = hint.map_or(false, |h| m.level > h);
            let mk = |dynamic: String| {
                json!({"via": "end-to-end (real macro callsite; cached = only this Dispatch alive, uncached = accept-all `sometimes` Dispatch also alive)",
                       "metadata": um_json(u), "context": if is_ctx_span { "no span (this is the context span being created)" } else { CTX_NAMES[c] },
                       "summary_interest": iname(si), "summary_hint": hname(hint),
                       "cached_receivers": mask_list(rc), "uncached_receivers": mask_list(ru), "dynamic": dynamic})
            };
            if si == 0 || hint_blocks {
                out.count(if si == 0 { "premise_stack_never" } else { "premise_stack_hint" }, 1);
                if rc != 0 {
                    add_div(&mut groups, DK::StackDeliveredAgainstSummary, None, "whole stack", || mk("delivered on the cached path".into()));
                }
                if ru != 0 {
                    let k = if si == 0 { DK::StackNever } else { DK::StackHint };
                    // F14 concerns interests only; F25 / F26 concern hints only
                    let fid = if k == DK::StackNever && f14(&stack_envs, u) {
                        Some("F14")
                    } else if has_empty_vec {
                        Some("F10")
                    } else if k == DK::StackHint && none_in_composite {
                        Some(NONE_MARKER_ID)
                    } else {
                        None
                    };
                    add_div(&mut groups, k, fid, "whole stack", || mk("delivered on the uncached path".into()));
                }
            } else if si == 2 {
                out.count("premise_stack_always", 1);
                let fid = if f14(&stack_envs, u) { Some("F14") } else { None };
                if let Some(why) = top_rej.get(&(c as u8, u as u16)) {
                    add_div(&mut groups, DK::StackAlwaysRejected, fid, "whole stack", || mk(why.to_string()));
                }
                if rc != ru && !skip_c {
                    add_div(&mut groups, DK::StackCachedNeUncached, fid, "whole stack", || mk("receivers differ".into()));
                }
            } else {
                out.count("stack_sometimes_cases", 1);
                if rc != ru && !skip_c {
                    add_div(&mut groups, DK::StackSometimesDiffers, None, "whole stack", || mk("receivers differ".into()));
                }
            }
            if ru != 0 {
                out.count("uncached_deliveries", ru.count_ones() as u64);
            }
            if rc != 0 {
                out.count("cached_deliveries", rc.count_ones() as u64);
            }
        }
    }

    // ---- evidence
    let nontrivial = ti[..NU].iter().any(|x| *x != 1) || hint.is_some();
    if nontrivial {
        let mut h = vlib::rng::hash_bytes(&ti[..]);
        h = h.wrapping_mul(31).wrapping_add(hint.map_or(99, |x| x as u64));
        for c in 0..NCTX {
            for u in 0..NU {
                h = h.wrapping_mul(0x100_0000_01B3) ^ o.recv[1][c][u];
            }
        }
        out.distinct(h);
        out.count("nontrivial_units", 1);
    }
    out.count("units", 1);
    out.count(&format!("units[{seg}]"), 1);
    out.count("recording_layers", o.n_recorders as u64 + o.plain_base as u64);
    out.count("filters_spied", o.spies.len() as u64);
    for v in ti[..NU].iter() {
        out.count(&format!("stack_interest_{}", iname(*v)), 1);
    }
    out.set("stack_hints", hname(hint));
    {
        let mut shapes = std::collections::BTreeSet::new();
        spec.layers.iter().for_each(|l| l.shape(&mut shapes));
        shapes.insert(if o.plain_base { "base:plain" } else { "base:registry" });
        for s in shapes {
            out.set("shapes", s);
        }
        let mut kinds = std::collections::BTreeSet::new();
        fn walk(l: &LS, k: &mut std::collections::BTreeSet<&'static str>) {
            match l {
                LS::Flt(f) => f.kinds(k),
                LS::FltTree(x, f) => {
                    f.kinds(k);
                    walk(x, k)
                }
                LS::SomeL(x) => walk(x, k),
                LS::VecL(v) => v.iter().for_each(|x| walk(x, k)),
                LS::AndThen(a, b) => {
                    walk(a, k);
                    walk(b, k)
                }
                _ => {}
            }
        }
        spec.layers.iter().for_each(|l| walk(l, &mut kinds));
        for k in kinds {
            out.set("filter_kinds", k);
        }
    }
    if out.samples.len() < 2 && nontrivial && (idx % 7 == 3) {
        out.sample(json!({"unit": idx, "stack": spec.desc(), "stack_hint": hname(hint),
            "stack_interest_counts": {"never": ti[..NU].iter().filter(|x| **x == 0).count(), "sometimes": ti[..NU].iter().filter(|x| **x == 1).count(), "always": ti[..NU].iter().filter(|x| **x == 2).count()},
            "uncached_deliveries_no_span_ctx": o.recv[1][0].iter().filter(|m| **m != 0).count(),
            "cached_deliveries_no_span_ctx": o.recv[0][0].iter().filter(|m| **m != 0).count()}));
    }
    drop(top);

    // ---- verdicts
    for g in groups {
        // the new-finding candidate: a Vec holding a global filter next to other layers
        let fid = match (g.fid, g.kind) {
            (None, DK::StackAlwaysRejected | DK::StackCachedNeUncached)
                if spec.layers.iter().any(|l| l.has_vec_with_global()) =>
            {
                Some(VEC_GLOBAL_ID)
            }
            (None, DK::StackAlwaysRejected | DK::StackCachedNeUncached)
                if spec.layers.iter().any(|l| l.has_global_in_filtered()) =>
            {
                Some(FILTERED_GLOBAL_ID)
            }
            (f, _) => f,
        };
        let w = json!({
            "unit": idx, "segment": seg, "stack": spec.desc(), "scope": g.scope, "problem": g.kind.text(),
            "cases": g.count, "examples": g.examples,
            "child_args": replay_args(idx),
        });
        match fid {
            Some(f) => {
                out.count(&format!("{}_case_groups", f.to_lowercase()), 1);
                out.count(&format!("{}_cases", f.to_lowercase()), g.count);
                out.finding(f, finding_text(f), w);
            }
            None => out.violation(g.kind.text(), w),
        }
    }
}
// provisional ids of findings first made by this check (violations until listed in known_findings.json)
const VEC_GLOBAL_ID: &str = "F25";
const NONE_MARKER_ID: &str = "F26";
const FILTERED_GLOBAL_ID: &str = "F27";
static TIER_NAME: OnceLock<String> = OnceLock::new();
static SEED: OnceLock<u64> = OnceLock::new();
/// plan-shaping overrides (alpha= / rand=) the unit index depends on
static PLAN_KV: OnceLock<Vec<String>> = OnceLock::new();
fn replay_args(idx: u64) -> Vec<String> {
    let mut v: Vec<String> = vec![
        TIER_NAME.get().cloned().unwrap_or_else(|| "quick".into()),
        "--child".into(),
        "u".into(),
        "--seed".into(),
        SEED.get().copied().unwrap_or(1).to_string(),
        "--shard".into(),
        "0".into(),
        "--nshards".into(),
        "1".into(),
        format!("only={idx}"),
    ];
    v.extend(PLAN_KV.get().cloned().unwrap_or_default());
    v
}
fn finding_text(f: &str) -> &'static str {
    match f {
        "F10" => "an empty Vec of layers answers Interest::never / Some(OFF) while its enabled() accepts everything: the stack's summary silences layers that the uncached path reaches",
        "F14" => "EnvFilter answers `always` for a span callsite matched by a span directive although the span is more verbose than the directive allows; its enabled() rejects it (cached path creates the span, uncached path does not)",
        "F25" => "a Vec of layers answers register_callsite with the HIGHEST interest of its members but enabled() with the conjunction: with a global filter layer inside the Vec the stack says `always` for callsites its enabled() rejects (cached path delivers, uncached path does not)",
        "F27" => "Filtered::register_callsite ignores the Interest of the layer it wraps but Filtered::enabled honours that layer's enabled(): with a global filter layer inside a .with_filter(..) tree the stack says `always` for callsites its enabled() rejects",
        "F26" => "a Vec / and_then tree with a None member answers the NoneLayerMarker downcast for the whole composite, so the enclosing Layered treats it as an absent layer and drops its `no hint`: the stack's hint is below a level another member of the composite receives",
        _ => "?",
    }
}

// ---------------------------------------------------------------------------------------
// child / parent

fn child(args: &Args) {
    let _ = TIER_NAME.set(args.tier.name().to_string());
    let _ = SEED.set(args.seed);
    let _ = PLAN_KV.set(args.kv.iter().filter(|(k, _)| k.as_str() == "alpha" || k.as_str() == "rand").map(|(k, v)| format!("{k}={v}")).collect());
    let plan = Arc::new(Plan::new(args));
    let total = plan.total();
    let stride = args.get_u64("stride", 1).max(1);
    let only = args.get("only").and_then(|s| s.parse::<u64>().ok());
    let todo: Vec<u64> = match only {
        Some(i) => vec![i],
        None => (0..total)
            .skip(args.shard as usize)
            .step_by(args.nshards as usize)
            .enumerate()
            .filter(|(k, _)| *k as u64 % stride == 0)
            .map(|(_, i)| i)
            .collect(),
    };
    run::quiet_panics();
    let mut out = Out::new();
    let seed = args.seed;
    let shard = args.shard;
    let todo = Arc::new(todo);
    let mut pos = 0usize;
    // each worker thread has clean thread-locals; a panic inside the code under test ends the
    // worker (and, because process-wide locks may be poisoned, the child)
    while pos < todo.len() {
        let plan2 = plan.clone();
        let todo2 = todo.clone();
        let start = pos;
        let h = std::thread::Builder::new()
            .stack_size(32 << 20)
            .spawn(move || {
                warm_up();
                let mut out = Out::new();
                let mut p = start;
                while p < todo2.len() {
                    let idx = todo2[p];
                    let (si, spec, direct) = plan2.unit(idx);
                    let seg = plan2.segs[si].0.clone();
                    let mut rng = Rng::derive(seed, shard, idx);
                    let r = run::catch(|| run_unit(&spec, direct, &mut rng));
                    match r {
                        Ok(o) => judge(idx, &seg, &spec, &o, &mut out),
                        Err(msg) => {
                            if msg.starts_with("HARNESS:") {
                                eprintln!("{msg} [unit {idx}: {}]", spec.desc());
                                std::process::exit(3);
                            }
                            out.count("panics", 1);
                            out.violation(
                                "panic inside the code under test",
                                json!({"unit": idx, "segment": seg, "stack": spec.desc(), "panic": msg,
                                       "child_args": replay_args(idx)}),
                            );
                            return (out, p + 1, true);
                        }
                    }
                    p += 1;
                }
                (out, p, false)
            })
            .expect("HARNESS: cannot spawn worker");
        match h.join() {
            Ok((o, p, panicked)) => {
                out.merge(o);
                pos = p;
                if panicked {
                    out.count("units_not_run_after_panic", (todo.len() - pos) as u64);
                    break;
                }
            }
            Err(p) => {
                eprintln!("HARNESS: worker thread died: {}", run::panic_msg(&p));
                std::process::exit(3);
            }
        }
    }
    out.emit();
}

fn parent(args: &Args) {
    let t0 = Instant::now();
    let mut out = Out::new();
    let plan = Plan::new(args);
    if args.get("plan").is_some() {
        for (name, _, n) in &plan.segs {
            println!("{n:>12}  {name}");
        }
        println!("{:>12}  total", plan.total());
        std::process::exit(0);
    }
    let shards = args.get_u64("shards", args.tier.pick(64, 512));
    let mut spec = ChildSpec::new("u", shards).timeout(args.tier.pick(600, 3000));
    for (k, v) in &args.kv {
        if k != "shards" {
            spec = spec.arg(k, v);
        }
    }
    let ends = run::run_children(args, &spec, &mut out);
    run::classify_ends(&ends, &mut out, true);
    let units = out.counters.get("units").copied().unwrap_or(0);
    let skipped = out.counters.get("units_not_run_after_panic").copied().unwrap_or(0) + out.counters.get("panics").copied().unwrap_or(0);
    let stride = args.get_u64("stride", 1).max(1);
    if stride == 1 && args.get("only").is_none() && units + skipped != plan.total() && out.inconclusive.is_empty() && out.harness_errors.is_empty() {
        out.harness_errors.push(format!("the children judged {units} units (+{skipped} skipped), the plan has {}", plan.total()));
    }
    let mut extra = Map::new();
    let exhaustive = stride == 1 && skipped == 0 && out.inconclusive.is_empty();
    extra.insert(
        "enumeration".into(),
        json!({
            "complete_segments": plan.segs.iter().filter(|s| !matches!(s.1, Seg::Rand)).map(|s| json!({"what": s.0, "units": s.2})).collect::<Vec<_>>(),
            "complete_units": plan.exhaustive_total(),
            "random_units": plan.total() - plan.exhaustive_total(),
            "leaf_alphabet": all_leaves().iter().map(|l| l.desc()).collect::<Vec<_>>(),
            "unary": ["Some", "not", "reload"], "binary": ["and", "or"],
            "layer_atoms_registry": atoms(args.tier, true).iter().map(|l| l.desc()).collect::<Vec<_>>(),
            "layer_atoms_plain": atoms(args.tier, false).iter().map(|l| l.desc()).collect::<Vec<_>>(),
            "metadata_universe": "5 levels x 4 targets x {span sp / span other / event} x fields {id,f} / {id} = 120 real macro callsites (+ 120 leaked static metadata for the direct calls)",
            "contexts": CTX_NAMES,
        }),
    );
    // thorough: a reduced shard set again on a build with the repository's debug assertions live
    if let Ok(p) = std::env::var("VERIF_C08_DBG_BIN") {
        let mut dbg = Out::new();
        let mut spec = ChildSpec::new("u", shards).timeout(3000).arg("stride", args.get_u64("dbgstride", args.tier.pick(4, 8)));
        for (k, v) in &args.kv {
            if k != "shards" && k != "stride" {
                spec = spec.arg(k, v);
            }
        }
        spec.exe = Some(std::path::PathBuf::from(&p));
        let ends = run::run_children(args, &spec, &mut dbg);
        run::classify_ends(&ends, &mut dbg, true);
        extra.insert(
            "debug_assertion_build".into(),
            json!({"binary": p, "evaluations": dbg.evals, "distinct": dbg.distinct.len(), "counters": dbg.counters,
                   "note": "a debug_assert panic is a violation unless it matches a known finding"}),
        );
        let dv = dbg.to_json();
        let evals = out.evals;
        out.merge_json(&json!({"viols": dv["viols"], "known": dv["known"], "inconclusive": dv["inconclusive"], "harness_errors": dv["harness_errors"]}));
        out.evals = evals + dbg.evals;
    }
    run::finish(
        Finish {
            id: ID,
            args,
            t0,
            rule: "unit = one built stack (spec -> real Registry/plain collector + real layers/filters, every filter behind a forwarding recorder, the stack behind a forwarding recording collector); \
                   per unit 120 real macro callsites x 4 span contexts emitted twice (cached: only this Dispatch alive; uncached: an accept-all always-`sometimes` Dispatch alive too), \
                   plus, for single .with_filter(X) stacks, direct callsite_enabled/max_level_hint/enabled/event_enabled calls of X on 120 leaked static metadata x 4 real Contexts; \
                   evaluations = (summary, dynamic answer) implications judged: stack x metadata x context, every observed enabled() call of every filter, every direct case; \
                   non-trivial unit = the stack's summary is informative (some callsite `never`/`always`, or a hint); \
                   distinct = distinct (stack interest vector over the universe, stack hint, uncached receiver sets over universe x contexts) among non-trivial units",
            assumptions: vec![
                "user-supplied hints (FilterFn / DynFilterFn with_max_level_hint) and callsite filters are generated as true bounds of their closures; closures are deterministic functions of metadata (+ the current span the Context shows)".into(),
                "enabled() of a filter is only ever asked after callsite_enabled() for that callsite (the real protocol)".into(),
                "complete to the stated depth over the stated alphabets (see coverage.enumeration); deeper expressions / longer lists only through the seeded random segment".into(),
                "no filter with a user-defined event_enabled veto is generated (none of the provided filters has one); reload::Subscriber is wrapped around filters, not around whole layers".into(),
                "context spans are ERROR-level spans created through the same stack; a context a filter rejects degenerates to `no span` for that filter".into(),
            ],
            // developer overrides (only= / stride= / rand= / alpha=) run reduced workloads
            min_evals: if args.kv.is_empty() { args.tier.pick(200_000_000, 3_000_000_000) } else { 1 },
            min_distinct: if args.kv.is_empty() { args.tier.pick(5_000, 50_000) } else { 1 },
            exhaustive,
            extra,
        },
        out,
    );
}

fn main() {
    let args = run::parse_args();
    match args.mode.clone() {
        Mode::Parent => parent(&args),
        Mode::Child(_) => child(&args),
        Mode::Replay(p) => run::replay(ID, &p),
    }
}
