// C13 part E: several threads `record` declared-but-Empty fields on ONE shared span at the
// same moment (spin barrier); afterwards, at quiescence, every later record that lists the
// span must carry every recorded field with its value.

use std::sync::atomic::AtomicBool;

struct RecJob {
    span: tracing::Span,
    field: &'static str,
    val: Val,
}
struct SharedState {
    k: u64,
    round: AtomicU64,
    arrived: AtomicU64,
    done: AtomicU64,
    stop: AtomicBool,
    jobs: Mutex<Vec<Option<RecJob>>>,
    /// (call stamp, return stamp) of every `Span::record` call of the current round
    stamps: Mutex<Vec<(u64, u64)>>,
    panic: Mutex<Option<String>>,
}

fn spin_until(f: impl Fn() -> bool) {
    let mut n = 0u32;
    while !f() {
        n += 1;
        if n < 4000 {
            std::hint::spin_loop();
        } else {
            std::thread::yield_now();
        }
    }
}

fn rec_worker(sh: Arc<SharedState>, w: usize, d: Dispatch) {
    let _g = tracing::dispatch::set_default(&d);
    set_opctx(100 + w as u64, 0);
    let mut r = 0u64;
    loop {
        r += 1;
        spin_until(|| sh.round.load(Ordering::Acquire) >= r || sh.stop.load(Ordering::Acquire));
        if sh.round.load(Ordering::Acquire) < r {
            return;
        }
        let job = sh.jobs.lock().unwrap_or_else(|e| e.into_inner())[w].take().expect("HARNESS: no job for a recording thread");
        let held = Held::of(&job.val);
        sh.arrived.fetch_add(1, Ordering::AcqRel);
        // released together: pure spin, every participant is already running
        spin_until(|| sh.arrived.load(Ordering::Acquire) >= r * sh.k);
        let (st, res) = vlib::stamps::timed(|| {
            run::catch(|| {
                job.span.record(job.field, held.as_value());
            })
        });
        if let Err(p) = res {
            *sh.panic.lock().unwrap_or_else(|e| e.into_inner()) = Some(p);
        }
        drop(job);
        sh.stamps.lock().unwrap_or_else(|e| e.into_inner()).push((st.call, st.ret));
        sh.done.fetch_add(1, Ordering::AcqRel);
    }
}

fn life_expect(kind: &'static str, sp: &SpanM, scope: Vec<usize>, current: Vec<usize>) -> Expect {
    Expect {
        life: Some(kind),
        level: sp.level,
        target: sp.target.clone(),
        id: None,
        fields: vec![("message".to_string(), Val::Disp(kind.to_string()))],
        scope,
        current,
        explicit: true,
    }
}

fn permutations<T: Clone>(xs: &[T]) -> Vec<Vec<T>> {
    if xs.len() <= 1 {
        return vec![xs.to_vec()];
    }
    let mut out = vec![];
    for i in 0..xs.len() {
        let mut rest = xs.to_vec();
        let x = rest.remove(i);
        for mut p in permutations(&rest) {
            p.insert(0, x.clone());
            out.push(p);
        }
    }
    out
}

const REC_FIELDS: [&str; 4] = ["f0", "f1", "f2", "f3"];

/// One session: one subscriber + sink, `k` persistent recording threads, `rounds` rounds.
fn shared_record_session(seed: u64, sidx: u64, cfg: &Cfg, k: usize, rounds: u64, out: &mut Out) {
    let sink = RecSink::new(0);
    let dispatch = build_dispatch(cfg, sink.clone());
    let sh = Arc::new(SharedState {
        k: k as u64,
        round: AtomicU64::new(0),
        arrived: AtomicU64::new(0),
        done: AtomicU64::new(0),
        stop: AtomicBool::new(false),
        jobs: Mutex::new((0..k).map(|_| None).collect()),
        stamps: Mutex::new(vec![]),
        panic: Mutex::new(None),
    });
    let workers: Vec<_> = (0..k)
        .map(|w| {
            let (sh, d) = (sh.clone(), dispatch.clone());
            std::thread::Builder::new().name(format!("rec{w}")).spawn(move || rec_worker(sh, w, d)).expect("HARNESS: spawn recorder")
        })
        .collect();
    let _g = tracing::dispatch::set_default(&dispatch);
    let mut rng = Rng::derive(seed ^ 0x5A4E, sidx, k as u64);
    let se = cfg.span_events;
    out.set("shared_span_threads", k.to_string());
    out.set("formats", FMT_NAMES[cfg.fmt as usize]);
    let names: Vec<String> = ["sid", "a", "f0", "f1", "f2", "f3"].iter().map(|s| s.to_string()).collect();

    for r in 1..=rounds {
        // ---- plan
        let same_field = rng.chance(1, 6);
        let slow = rng.chance(1, 5);
        let mut order: Vec<usize> = (0..REC_FIELDS.len()).collect();
        rng.shuffle(&mut order);
        let mut plan: Vec<(&'static str, Val)> = (0..k)
            .map(|w| {
                let v = if slow && (w == 0 || rng.bool()) {
                    Val::DbgVec((0..300 + rng.usize(2500)).map(|_| rng.range(-99999, 99999) as i32).collect())
                } else {
                    gen_val(&mut rng)
                };
                (REC_FIELDS[order[w]], v)
            })
            .collect();
        if same_field {
            plan[1].0 = plan[0].0;
        }
        let name = rng.pick(SPAN_NAMES).to_string();
        let target = rng.pick(TARGETS).to_string();
        let level = 1 + rng.usize(5);
        let sid = format!("#S1x{r}#");
        let with_a = rng.bool();
        let a_val = Val::U64(rng.below(100));
        let meta = dyn_meta(true, &name, &target, level, true, Some(77), &names);
        let mut created: Vec<(String, Val)> = vec![("sid".to_string(), Val::Str(sid.clone()))];
        if with_a {
            created.push(("a".to_string(), a_val.clone()));
        }
        let sp0 = SpanM { name: name.clone(), target: target.clone(), level, fields: created.clone() };
        let mut h = ThreadHist { th: 1, named: false, spans: vec![sp0.clone()], ops: vec![], stray_panic: None };

        // ---- op1: create the span (f0..f3 declared, Empty)
        set_opctx(1, 1);
        let sid_h = Held::of(&Val::Str(sid.clone()));
        let a_h = Held::of(&a_val);
        let empty = tracing_core::field::Empty;
        let vals: Vec<&dyn Value> = vec![sid_h.as_value(), if with_a { a_h.as_value() } else { &empty }, &empty, &empty, &empty, &empty];
        let span = match run::catch(|| with_values(meta, &vals, |vs| tracing::Span::new(meta, vs))) {
            Ok(s) => s,
            Err(p) => {
                out.violation("panic while creating a span", json!({"part": "shared-record", "config": cfg.describe(), "panic": p}));
                break;
            }
        };
        h.ops.push(OpLog {
            desc: format!("create span {name:?} target={target} level={} fields[{}] + f0..f3 = Empty", LEVEL_NAMES[level], fields_desc(&created)),
            expects: if se & 1 != 0 { vec![life_expect("new", &sp0, vec![0], vec![])] } else { vec![] },
            bomb: None,
            twin: false,
        });

        // ---- op2: k threads record at the same moment
        set_opctx(1, 2);
        {
            let mut jobs = sh.jobs.lock().unwrap_or_else(|e| e.into_inner());
            for (w, (f, v)) in plan.iter().enumerate() {
                jobs[w] = Some(RecJob { span: span.clone(), field: f, val: v.clone() });
            }
            sh.stamps.lock().unwrap_or_else(|e| e.into_inner()).clear();
        }
        sh.round.store(r, Ordering::Release);
        spin_until(|| sh.done.load(Ordering::Acquire) >= r * k as u64);
        let stamps = sh.stamps.lock().unwrap_or_else(|e| e.into_inner()).clone();
        let overlapped = stamps.iter().enumerate().any(|(i, a)| stamps.iter().enumerate().any(|(j, b)| i != j && a.0 < b.1 && b.0 < a.1));
        out.count("shared_span_rounds", 1);
        out.count("shared_span_record_calls", k as u64);
        if overlapped {
            out.count("shared_span_rounds_with_overlapping_record_calls", 1);
        }
        if same_field {
            out.count("shared_span_rounds_same_field", 1);
        }
        if slow {
            out.count("shared_span_rounds_slow_debug", 1);
        }
        let plan_desc: Vec<String> = plan.iter().enumerate().map(|(w, (f, v))| {
            let t = v.text();
            format!("thread rec{w}: span.record({f:?}, {})", if t.len() > 80 { format!("{}… ({} bytes of Debug text)", &t[..60], t.len()) } else { format!("{v:?}") })
        }).collect();
        h.ops.push(OpLog { desc: format!("{k} threads, released together, each call Span::record on the shared span: {plan_desc:?}"), expects: vec![], bomb: None, twin: false });
        if let Some(p) = sh.panic.lock().unwrap_or_else(|e| e.into_inner()).take() {
            out.violation("panic in Span::record on a shared span", json!({"part": "shared-record", "config": cfg.describe(), "panic": p, "plan": plan_desc}));
            break;
        }

        // ---- quiescent: op3 enter, op4 event, op5 exit + close
        let id = format!("#E1x{r}#");
        let ev_fields = vec![("message".to_string(), Val::Disp(format!("after records {id}"))), ("n".to_string(), Val::U64(r))];
        let ev_names: Vec<String> = ev_fields.iter().map(|(k, _)| k.clone()).collect();
        let ev_level = 1 + rng.usize(5);
        let ev_meta = dyn_meta(false, "event c13", "app", ev_level, false, None, &ev_names);
        let res = run::catch(|| {
            set_opctx(1, 3);
            let e = span.entered();
            set_opctx(1, 4);
            with_fields(ev_meta, &ev_fields, |vs| Event::dispatch(ev_meta, vs));
            set_opctx(1, 5);
            drop(e.exit());
        });
        set_opctx(1, u64::MAX);
        h.ops.push(OpLog { desc: "enter the span".into(), expects: if se & 2 != 0 { vec![life_expect("enter", &sp0, vec![0], vec![0])] } else { vec![] }, bomb: None, twin: false });
        h.ops.push(OpLog {
            desc: format!("event {} target=app inside the span fields[{}]", LEVEL_NAMES[ev_level], fields_desc(&ev_fields)),
            expects: vec![Expect { life: None, level: ev_level, target: "app".into(), id: Some(id), fields: ev_fields.clone(), scope: vec![0], current: vec![0], explicit: false }],
            bomb: None,
            twin: false,
        });
        let mut ex = vec![];
        if se & 4 != 0 {
            ex.push(life_expect("exit", &sp0, vec![0], vec![]));
        }
        if se & 8 != 0 {
            ex.push(life_expect("close", &sp0, vec![0], vec![]));
        }
        h.ops.push(OpLog { desc: "exit the span and drop the last handle".into(), expects: ex, bomb: None, twin: false });
        if let Err(p) = res {
            h.stray_panic = Some(p);
        }

        // ---- judge: the order in which the recorded fields were appended is not fixed, and a
        // field recorded twice may show both values or either one
        let recs = sink.take();
        if let Some(rr) = recs.iter().find(|x| x.th != 1) {
            out.violation("writer call made from inside Span::record", json!({"part": "shared-record", "config": cfg.describe(), "call": format!("{:?}", rr.kind)}));
            break;
        }
        let recorded: Vec<(String, Val)> = plan.iter().map(|(f, v)| (f.to_string(), v.clone())).collect();
        let mut variants: Vec<Vec<(String, Val)>> = vec![recorded.clone()];
        if same_field {
            for drop_w in 0..2 {
                let mut v = recorded.clone();
                v.remove(drop_w);
                variants.push(v);
            }
        }
        // the `new` record (written before any record call) lists the creation fields only
        h.spans.push(sp0.clone());
        if se & 1 != 0 {
            h.ops[0].expects[0].scope = vec![1];
        }
        let ctx = JudgeCtx { cfg, part: "shared-record", hidx: sidx * 1_000_000 + r, nthreads: k + 1 };
        let mut first_fail: Option<Out> = None;
        let mut passed = false;
        'cand: for var in &variants {
            for perm in permutations(var) {
                let mut fields = created.clone();
                fields.extend(perm);
                h.spans[0].fields = fields;
                let mut tmp = Out::new();
                judge_thread(&ctx, &h, &recs, &mut tmp);
                if tmp.viols.is_empty() {
                    out.merge(tmp);
                    passed = true;
                    break 'cand;
                }
                if first_fail.is_none() {
                    first_fail = Some(tmp);
                }
            }
        }
        if !passed {
            let ff = first_fail.expect("HARNESS: no candidate judged");
            let v = &ff.viols[0];
            out.evals += ff.evals;
            out.violation(
                format!("after concurrent Span::record calls on a shared span, a later record does not list every recorded field with its value (no ordering of the recorded fields fits); first reading: {}", v.what),
                json!({"part": "shared-record", "session": sidx, "round": r, "config": cfg.describe(), "recording_threads": k,
                       "record_calls": plan_desc, "record_calls_overlapped (logical stamps)": overlapped, "same_field_round": same_field,
                       "records_written_afterwards": recs.iter().filter_map(|x| match &x.kind { RecKind::Write(b) => Some({ let s = lossy(b); if s.len() > 1500 { format!("{}…", s.chars().take(1500).collect::<String>()) } else { s } }), _ => None }).collect::<Vec<_>>(),
                       "first_reading_witness": v.witness}),
            );
            break;
        }
    }
    sh.stop.store(true, Ordering::Release);
    for w in workers {
        let _ = w.join();
    }
}
