// C13 part B: configuration, subscriber construction, history model and driver.

// ---------------------------------------------------------------- configuration

#[derive(Clone, Copy, Debug, PartialEq, Eq)]
struct Cfg {
    /// 0 full, 1 compact, 2 pretty, 3 json
    fmt: u8,
    target: bool,
    level: bool,
    tid: bool,
    tname: bool,
    file: bool,
    line: bool,
    ansi: bool,
    /// 0 without_time, 1 default SystemTime, 2 custom fixed timer
    timer: u8,
    /// bit 1 NEW, 2 ENTER, 4 EXIT, 8 CLOSE
    span_events: u8,
    json_flatten: bool,
    json_cur: bool,
    json_list: bool,
}
const FMT_NAMES: [&str; 4] = ["full", "compact", "pretty", "json"];

impl Cfg {
    /// option bits 0..128: target, level, tid, tname, file, line, ansi
    fn from_parts(fmt: u8, bits: u8, timer: u8, span_events: u8, json_extra: u8) -> Cfg {
        Cfg {
            fmt,
            target: bits & 1 != 0,
            level: bits & 2 != 0,
            tid: bits & 4 != 0,
            tname: bits & 8 != 0,
            file: bits & 16 != 0,
            line: bits & 32 != 0,
            ansi: bits & 64 != 0,
            timer,
            span_events,
            json_flatten: json_extra & 1 != 0,
            json_cur: json_extra & 2 != 0,
            json_list: json_extra & 4 != 0,
        }
    }
    fn describe(&self) -> JValue {
        let mut se = vec![];
        for (b, n) in [(1, "NEW"), (2, "ENTER"), (4, "EXIT"), (8, "CLOSE")] {
            if self.span_events & b != 0 {
                se.push(n);
            }
        }
        json!({"format": FMT_NAMES[self.fmt as usize], "with_target": self.target, "with_level": self.level,
               "with_thread_ids": self.tid, "with_thread_names": self.tname, "with_file": self.file,
               "with_line_number": self.line, "with_ansi": self.ansi,
               "timer": (["without_time", "SystemTime (default)", "custom fixed timer"][self.timer as usize]),
               "span_events": se,
               "json": if self.fmt == 3 { json!({"flatten_event": self.json_flatten, "with_current_span": self.json_cur, "with_span_list": self.json_list}) } else { JValue::Null }})
    }
    fn code(&self) -> String {
        format!(
            "{}{}{}{}{}{}{}{}t{}s{}j{}{}{}",
            self.fmt, self.target as u8, self.level as u8, self.tid as u8, self.tname as u8, self.file as u8,
            self.line as u8, self.ansi as u8, self.timer, self.span_events, self.json_flatten as u8,
            self.json_cur as u8, self.json_list as u8
        )
    }
}

struct FixedTime;
impl FormatTime for FixedTime {
    fn format_time(&self, w: &mut format::Writer<'_>) -> fmt::Result {
        w.write_str("FIXEDTIME")
    }
}

type BoxedSub = Box<dyn Subscribe<Registry> + Send + Sync + 'static>;

fn span_kind(bits: u8) -> FmtSpan {
    let mut k = FmtSpan::NONE;
    if bits & 1 != 0 {
        k |= FmtSpan::NEW;
    }
    if bits & 2 != 0 {
        k |= FmtSpan::ENTER;
    }
    if bits & 4 != 0 {
        k |= FmtSpan::EXIT;
    }
    if bits & 8 != 0 {
        k |= FmtSpan::CLOSE;
    }
    k
}

/// The real `fmt::Subscriber`, configured through its public builder methods only.
fn build_subscriber<W>(cfg: &Cfg, writer: W) -> BoxedSub
where
    W: for<'a> MakeWriter<'a> + Send + Sync + 'static,
{
    macro_rules! common {
        ($s:expr) => {
            Box::new(
                $s.with_target(cfg.target)
                    .with_level(cfg.level)
                    .with_thread_ids(cfg.tid)
                    .with_thread_names(cfg.tname)
                    .with_file(cfg.file)
                    .with_line_number(cfg.line)
                    .with_ansi(cfg.ansi)
                    .with_span_events(span_kind(cfg.span_events)),
            ) as BoxedSub
        };
    }
    macro_rules! timed {
        ($s:expr) => {
            match cfg.timer {
                0 => common!($s.without_time()),
                1 => common!($s),
                _ => common!($s.with_timer(FixedTime)),
            }
        };
    }
    let base = tracing_subscriber::fmt::subscriber::<Registry>().with_writer(writer);
    match cfg.fmt {
        0 => timed!(base),
        1 => timed!(base.compact()),
        2 => timed!(base.pretty()),
        _ => timed!(base
            .json()
            .flatten_event(cfg.json_flatten)
            .with_current_span(cfg.json_cur)
            .with_span_list(cfg.json_list)),
    }
}

fn build_dispatch<W>(cfg: &Cfg, writer: W) -> Dispatch
where
    W: for<'a> MakeWriter<'a> + Send + Sync + 'static,
{
    Dispatch::new(tracing_subscriber::registry().with(build_subscriber(cfg, writer)))
}

// ---------------------------------------------------------------- model of a history

#[derive(Clone, Debug)]
struct SpanM {
    name: String,
    target: String,
    level: usize,
    fields: Vec<(String, Val)>,
}

#[derive(Clone, Debug)]
struct Expect {
    /// None = event; Some("new"/"enter"/"exit"/"close") = span lifecycle record
    life: Option<&'static str>,
    level: usize,
    target: String,
    /// the event id token expected in the record (None for lifecycle records)
    id: Option<String>,
    /// event fields including ("message", Disp(text)); lifecycle: just the message
    fields: Vec<(String, Val)>,
    /// spans in scope (indices into the arena), root -> leaf
    scope: Vec<usize>,
    /// spans entered on the thread at that moment, root -> leaf
    current: Vec<usize>,
    /// the scope was given by an explicit parent / is a lifecycle record
    explicit: bool,
}

#[derive(Clone, Debug)]
struct BombInfo {
    marker: String,
    id: String,
    /// op index of the twin event (same thread) whose record is the reference text
    twin_op: u64,
    panicked: bool,
}

#[derive(Clone, Debug)]
struct OpLog {
    desc: String,
    expects: Vec<Expect>,
    bomb: Option<BombInfo>,
    twin: bool,
}

struct ThreadHist {
    th: u64,
    named: bool,
    spans: Vec<SpanM>,
    ops: Vec<OpLog>,
    /// a panic escaped from an operation that must not panic
    stray_panic: Option<String>,
}

fn fields_desc(fs: &[(String, Val)]) -> String {
    fs.iter().map(|(k, v)| format!("{k}={v:?}")).collect::<Vec<_>>().join(", ")
}

struct HistParams {
    nops: usize,
    /// 0..=100: percentage of event ops that become a twin+bomb+follow-up triple
    bomb_pct: u64,
    max_depth: usize,
}

/// Runs one generated history on the *current* thread against the current default collector
/// and returns what was done and what is expected.  `th` tags every recorded call.
fn run_history(rng: &mut Rng, cfg: &Cfg, th: u64, named: bool, p: &HistParams) -> ThreadHist {
    let mut h = ThreadHist { th, named, spans: vec![], ops: vec![], stray_panic: None };
    let mut stack: Vec<(usize, tracing::span::EnteredSpan)> = vec![];
    let mut next_ev = 0u64;
    let mut next_sp = 0u64;
    let se = cfg.span_events;
    let file = rng.bool();
    let mut must_event = false; // the op after a bomb is always a plain event

    let life = |kind: &'static str, idx: usize, spans: &Vec<SpanM>, scope: Vec<usize>, current: Vec<usize>| Expect {
        life: Some(kind),
        level: spans[idx].level,
        target: spans[idx].target.clone(),
        id: None,
        fields: vec![("message".to_string(), Val::Disp(kind.to_string()))],
        scope,
        current,
        explicit: true,
    };

    let mut op_no = 0u64;
    let mut i = 0usize;
    while i < p.nops || must_event || !stack.is_empty() {
        let closing = i >= p.nops && !must_event;
        i += 1;
        let cur: Vec<usize> = stack.iter().map(|(k, _)| *k).collect();
        let choice = if must_event {
            3
        } else if closing {
            1
        } else {
            rng.weighted(&[
                if stack.len() < p.max_depth { 4 } else { 0 }, // 0 push
                if stack.is_empty() { 0 } else { 3 },          // 1 pop
                if stack.is_empty() { 0 } else { 1 },          // 2 re-enter
                10,                                            // 3 event
            ])
        };
        match choice {
            0 => {
                let name = rng.pick(SPAN_NAMES).to_string();
                let target = rng.pick(TARGETS).to_string();
                let level = 1 + rng.usize(5);
                let mut fields = if rng.chance(1, 4) { vec![] } else { gen_fields(rng, 3) };
                if !fields.is_empty() || rng.bool() {
                    let sid = format!("#S{th}x{next_sp}#");
                    fields.retain(|(k, _)| k != "id");
                    fields.insert(rng.usize(fields.len() + 1), ("sid".to_string(), Val::Str(sid)));
                }
                next_sp += 1;
                let names: Vec<String> = fields.iter().map(|(k, _)| k.clone()).collect();
                let line = if rng.bool() { Some(10 + rng.below(900) as u32) } else { None };
                let meta = dyn_meta(true, &name, &target, level, file, line, &names);
                let idx = h.spans.len();
                h.spans.push(SpanM { name: name.clone(), target: target.clone(), level, fields: fields.clone() });
                let mut chain = cur.clone();
                chain.push(idx);
                let mut expects = vec![];
                if se & 1 != 0 {
                    expects.push(life("new", idx, &h.spans, chain.clone(), cur.clone()));
                }
                if se & 2 != 0 {
                    expects.push(life("enter", idx, &h.spans, chain.clone(), chain.clone()));
                }
                op_no += 1;
                set_opctx(th, op_no);
                let r = run::catch(|| with_fields(meta, &fields, |vs| tracing::Span::new(meta, vs)).entered());
                h.ops.push(OpLog {
                    desc: format!("push span {name:?} target={target} level={} fields[{}]", LEVEL_NAMES[level], fields_desc(&fields)),
                    expects,
                    bomb: None,
                    twin: false,
                });
                match r {
                    Ok(e) => stack.push((idx, e)),
                    Err(p) => {
                        h.stray_panic = Some(format!("panic while creating/entering a span: {p}"));
                        break;
                    }
                }
            }
            1 => {
                let (idx, e) = stack.pop().unwrap();
                let mut chain = cur.clone();
                let after: Vec<usize> = chain[..chain.len() - 1].to_vec();
                let mut expects = vec![];
                if se & 4 != 0 {
                    expects.push(life("exit", idx, &h.spans, chain.clone(), after.clone()));
                }
                if se & 8 != 0 {
                    expects.push(life("close", idx, &h.spans, std::mem::take(&mut chain), after.clone()));
                }
                op_no += 1;
                set_opctx(th, op_no);
                let r = run::catch(move || drop(e.exit()));
                h.ops.push(OpLog { desc: format!("pop span {:?} (exit, drop last handle)", h.spans[idx].name), expects, bomb: None, twin: false });
                if let Err(p) = r {
                    h.stray_panic = Some(format!("panic while exiting/closing a span: {p}"));
                    break;
                }
            }
            2 => {
                let (idx, e) = stack.pop().unwrap();
                let chain = cur.clone();
                let after: Vec<usize> = chain[..chain.len() - 1].to_vec();
                let mut expects = vec![];
                if se & 4 != 0 {
                    expects.push(life("exit", idx, &h.spans, chain.clone(), after));
                }
                if se & 2 != 0 {
                    expects.push(life("enter", idx, &h.spans, chain.clone(), chain.clone()));
                }
                op_no += 1;
                set_opctx(th, op_no);
                let r = run::catch(move || e.exit().entered());
                h.ops.push(OpLog { desc: format!("exit and re-enter span {:?}", h.spans[idx].name), expects, bomb: None, twin: false });
                match r {
                    Ok(e) => stack.push((idx, e)),
                    Err(p) => {
                        h.stray_panic = Some(format!("panic while re-entering a span: {p}"));
                        break;
                    }
                }
            }
            _ => {
                let with_bomb = !must_event && !closing && rng.below(100) < p.bomb_pct;
                must_event = false;
                let level = 1 + rng.usize(5);
                let target = rng.pick(TARGETS).to_string();
                let id = format!("#E{th}x{next_ev}#");
                next_ev += 1;
                let text = format!("{}evt {id}{}", gen_string(rng, 4), gen_string(rng, 6));
                let mut fields = gen_fields(rng, if with_bomb { 3 } else { 5 });
                let mpos = if with_bomb { 0 } else if rng.chance(3, 4) { 0 } else { rng.usize(fields.len() + 1) };
                fields.insert(mpos, ("message".to_string(), Val::Disp(text)));
                let line = if rng.bool() { Some(10 + rng.below(900) as u32) } else { None };
                // explicit parent: some span of the current stack (scope = its ancestors + itself)
                let explicit: Option<usize> = if !stack.is_empty() && rng.chance(1, 6) { Some(rng.usize(stack.len())) } else { None };
                let scope: Vec<usize> = match explicit {
                    Some(j) => cur[..=j].to_vec(),
                    None => cur.clone(),
                };
                let parent_id = explicit.and_then(|j| stack[j].1.id());
                let emit = |fields: &[(String, Val)]| {
                    let names: Vec<String> = fields.iter().map(|(k, _)| k.clone()).collect();
                    let meta = dyn_meta(false, "event c13", &target, level, file, line, &names);
                    with_fields(meta, fields, |vs| match &parent_id {
                        Some(pid) => Event::child_of(pid.clone(), meta, vs),
                        None => Event::dispatch(meta, vs),
                    })
                };
                let mk_expect = |fields: &[(String, Val)]| Expect {
                    life: None,
                    level,
                    target: target.clone(),
                    id: Some(id.clone()),
                    fields: fields.to_vec(),
                    scope: scope.clone(),
                    current: cur.clone(),
                    explicit: explicit.is_some(),
                };
                let pdesc = match explicit {
                    Some(j) => format!(" parent=stack[{j}]"),
                    None => String::new(),
                };
                if !with_bomb {
                    op_no += 1;
                    set_opctx(th, op_no);
                    let r = run::catch(|| emit(&fields));
                    h.ops.push(OpLog {
                        desc: format!("event {} target={target}{pdesc} fields[{}]", LEVEL_NAMES[level], fields_desc(&fields)),
                        expects: vec![mk_expect(&fields)],
                        bomb: None,
                        twin: false,
                    });
                    if let Err(p) = r {
                        h.stray_panic = Some(format!("panic while emitting an event: {p}"));
                        break;
                    }
                } else {
                    // twin first (clean buffer), then the same event with the panicking value
                    let marker = format!("pfxq{th}q{next_ev}q");
                    let disp = rng.bool();
                    let bname = "zz_last".to_string();
                    let mut tf = fields.clone();
                    tf.push((bname.clone(), Val::Twin(marker.clone(), disp)));
                    let mut bf = fields.clone();
                    bf.push((bname, Val::Bomb(marker.clone(), disp)));
                    op_no += 1;
                    let twin_op = op_no;
                    set_opctx(th, op_no);
                    let r = run::catch(|| emit(&tf));
                    h.ops.push(OpLog {
                        desc: format!("event (twin of the next) {} target={target}{pdesc} fields[{}]", LEVEL_NAMES[level], fields_desc(&tf)),
                        expects: vec![mk_expect(&tf)],
                        bomb: None,
                        twin: true,
                    });
                    if let Err(p) = r {
                        h.stray_panic = Some(format!("panic while emitting an event: {p}"));
                        break;
                    }
                    op_no += 1;
                    set_opctx(th, op_no);
                    let r = run::catch(|| emit(&bf));
                    let panicked = match &r {
                        Err(m) => {
                            if m != BOMB_PAYLOAD {
                                h.stray_panic = Some(format!("unexpected panic payload from a bomb event: {m}"));
                            }
                            true
                        }
                        Ok(()) => false,
                    };
                    h.ops.push(OpLog {
                        desc: format!(
                            "event whose last field's {} impl writes {marker:?} and panics (caught) {} target={target}{pdesc} fields[{}]",
                            if disp { "Display" } else { "Debug" },
                            LEVEL_NAMES[level],
                            fields_desc(&bf)
                        ),
                        expects: vec![],
                        bomb: Some(BombInfo { marker, id: id.clone(), twin_op, panicked }),
                        twin: false,
                    });
                    if h.stray_panic.is_some() {
                        break;
                    }
                    must_event = true;
                }
            }
        }
    }
    // leave nothing entered on this thread whatever happened
    while let Some((_, e)) = stack.pop() {
        op_no += 1;
        set_opctx(th, op_no);
        let _ = run::catch(move || drop(e.exit()));
    }
    set_opctx(th, u64::MAX);
    h
}
