// C13 part A: the recording MakeWriter (RecSink), dynamic callsites, field values.
// (included by checks/src/bin/c13.rs)

// ---------------------------------------------------------------- recorder

/// level rank: 1 = ERROR .. 5 = TRACE (verbosity)
fn rank(l: &Level) -> usize {
    match *l {
        Level::ERROR => 1,
        Level::WARN => 2,
        Level::INFO => 3,
        Level::DEBUG => 4,
        _ => 5,
    }
}
fn level_of(rank: usize) -> Level {
    [Level::ERROR, Level::WARN, Level::INFO, Level::DEBUG, Level::TRACE][rank - 1]
}
const LEVEL_NAMES: [&str; 6] = ["OFF", "ERROR", "WARN", "INFO", "DEBUG", "TRACE"];
/// compact symbols as shown in the documentation example of `format::Compact`
const COMPACT_SYMS: [&str; 6] = ["", "X", "!", "i", ":", "."];

#[derive(Clone, Debug)]
enum RecKind {
    /// make_writer() (meta = None) or make_writer_for(meta) (level rank, target)
    Make(Option<(usize, String)>),
    Write(Vec<u8>),
    Flush,
}
#[derive(Clone, Debug)]
struct Rec {
    /// id of the writer handed out
    w: u64,
    /// harness thread index and op index current on the calling thread
    th: u64,
    op: u64,
    kind: RecKind,
}

struct SinkInner {
    #[allow(dead_code)]
    id: usize,
    log: Mutex<Vec<Rec>>,
    /// when set, every write is still recorded but reports an I/O error to its caller
    fail: std::sync::atomic::AtomicBool,
    /// when non-zero, `write` takes at most this many bytes per call (a pipe / socket / stderr
    /// like sink) while `write_all` still takes the whole buffer in one call
    short: std::sync::atomic::AtomicUsize,
    /// when set, a writer holds the sink's lock from make_writer until it is dropped - what
    /// the library's own `impl MakeWriter for Mutex<W>` does (a panic that unwinds through a live
    /// writer poisons the lock and the next make_writer panics with "lock poisoned")
    exclusive: std::sync::atomic::AtomicBool,
    busy: Mutex<()>,
}
#[derive(Clone)]
struct RecSink(Arc<SinkInner>);

static NEXT_W: AtomicU64 = AtomicU64::new(1);
thread_local! {
    static OPCTX: Cell<(u64, u64)> = const { Cell::new((0, 0)) };
}
fn set_opctx(th: u64, op: u64) {
    OPCTX.with(|c| c.set((th, op)));
}

impl RecSink {
    fn new(id: usize) -> Self {
        RecSink(Arc::new(SinkInner { id, log: Mutex::new(Vec::new()), fail: std::sync::atomic::AtomicBool::new(false), short: std::sync::atomic::AtomicUsize::new(0), exclusive: std::sync::atomic::AtomicBool::new(false), busy: Mutex::new(()) }))
    }
    #[allow(dead_code)]
    fn set_exclusive(&self, on: bool) {
        self.0.exclusive.store(on, Ordering::SeqCst);
    }
    fn guard(&self) -> Option<std::sync::MutexGuard<'_, ()>> {
        if self.0.exclusive.load(Ordering::SeqCst) {
            Some(self.0.busy.lock().expect("lock poisoned"))
        } else {
            None
        }
    }
    #[allow(dead_code)]
    fn set_short(&self, n: usize) {
        self.0.short.store(n, Ordering::SeqCst);
    }
    #[allow(dead_code)]
    fn set_fail(&self, on: bool) {
        self.0.fail.store(on, Ordering::SeqCst);
    }
    fn push(&self, w: u64, kind: RecKind) {
        let (th, op) = OPCTX.with(|c| c.get());
        // never hold the lock across a call into tracing: nothing below calls out
        self.0.log.lock().unwrap_or_else(|e| e.into_inner()).push(Rec { w, th, op, kind });
    }
    fn take(&self) -> Vec<Rec> {
        std::mem::take(&mut *self.0.log.lock().unwrap_or_else(|e| e.into_inner()))
    }
}

struct RecWriter<'a> {
    sink: RecSink,
    w: u64,
    #[allow(dead_code)]
    guard: Option<std::sync::MutexGuard<'a, ()>>,
}
impl io::Write for RecWriter<'_> {
    // `write`, `write_all` and `flush` are implemented: write_fmt / write_vectored use the std
    // defaults, which end up in `write` / `write_all`, so every individual write call is seen.
    fn write(&mut self, buf: &[u8]) -> io::Result<usize> {
        let short = self.sink.0.short.load(Ordering::SeqCst);
        let n = if short > 0 { buf.len().min(short) } else { buf.len() };
        self.sink.push(self.w, RecKind::Write(buf[..n].to_vec()));
        if self.sink.0.fail.load(Ordering::SeqCst) {
            return Err(io::Error::new(io::ErrorKind::BrokenPipe, "recording sink set to fail"));
        }
        Ok(n)
    }
    // (only in short-write mode does this differ from the std default, which would end up in
    // `write` with the whole buffer anyway)
    fn write_all(&mut self, buf: &[u8]) -> io::Result<()> {
        self.sink.push(self.w, RecKind::Write(buf.to_vec()));
        if self.sink.0.fail.load(Ordering::SeqCst) {
            return Err(io::Error::new(io::ErrorKind::BrokenPipe, "recording sink set to fail"));
        }
        Ok(())
    }
    fn flush(&mut self) -> io::Result<()> {
        self.sink.push(self.w, RecKind::Flush);
        Ok(())
    }
}
impl<'a> MakeWriter<'a> for RecSink {
    type Writer = RecWriter<'a>;
    fn make_writer(&'a self) -> RecWriter<'a> {
        let w = NEXT_W.fetch_add(1, Ordering::Relaxed);
        self.push(w, RecKind::Make(None));
        RecWriter { sink: self.clone(), w, guard: self.guard() }
    }
    fn make_writer_for(&'a self, meta: &Metadata<'_>) -> RecWriter<'a> {
        let w = NEXT_W.fetch_add(1, Ordering::Relaxed);
        self.push(w, RecKind::Make(Some((rank(meta.level()), meta.target().to_string()))));
        RecWriter { sink: self.clone(), w, guard: self.guard() }
    }
}

// ---------------------------------------------------------------- dynamic callsites

struct DynCs {
    meta: OnceLock<Metadata<'static>>,
    // keeps the type non-zero-sized even if OnceLock's layout changes
    _pad: u8,
}
impl Callsite for DynCs {
    fn set_interest(&self, _: Interest) {}
    fn metadata(&self) -> &Metadata<'_> {
        self.meta.get().expect("HARNESS: callsite without metadata")
    }
}

fn leak_str(s: &str) -> &'static str {
    Box::leak(s.to_string().into_boxed_str())
}

static CS_CACHE: OnceLock<Mutex<HashMap<String, &'static Metadata<'static>>>> = OnceLock::new();

/// Metadata (leaked, cached per shape) for a span or event with the given field names.
fn dyn_meta(
    is_span: bool,
    name: &str,
    target: &str,
    level: usize,
    file: bool,
    line: Option<u32>,
    fields: &[String],
) -> &'static Metadata<'static> {
    let key = format!("{is_span}|{name}|{target}|{level}|{file}|{line:?}|{}", fields.join("\u{1}"));
    let cache = CS_CACHE.get_or_init(|| Mutex::new(HashMap::new()));
    let mut g = cache.lock().unwrap_or_else(|e| e.into_inner());
    if let Some(m) = g.get(&key) {
        return m;
    }
    let cs: &'static DynCs = Box::leak(Box::new(DynCs { meta: OnceLock::new(), _pad: 1 }));
    let names: Vec<&'static str> = fields.iter().map(|f| leak_str(f)).collect();
    let names: &'static [&'static str] = Box::leak(names.into_boxed_slice());
    let fs = FieldSet::new(names, Identifier(cs));
    let meta = Metadata::new(
        leak_str(name),
        leak_str(target),
        level_of(level),
        if file { Some("src/c13_case.rs") } else { None },
        line,
        Some("c13::case"),
        fs,
        if is_span { MKind::SPAN } else { MKind::EVENT },
    );
    let _ = cs.meta.set(meta);
    let m: &'static Metadata<'static> = cs.meta.get().unwrap();
    g.insert(key, m);
    m
}

/// Call `f` with a ValueSet pairing the metadata's fields with `vals` (same order, same count).
fn with_values<R>(meta: &'static Metadata<'static>, vals: &[&dyn Value], f: impl FnOnce(&ValueSet<'_>) -> R) -> R {
    let fs = meta.fields();
    let fields: Vec<Field> = fs.iter().collect();
    assert_eq!(fields.len(), vals.len(), "HARNESS: field/value count mismatch");
    macro_rules! go {
        ($($i:expr),*) => {{
            let arr = [$((&fields[$i], Some(vals[$i]) as Option<&dyn Value>)),*];
            f(&fs.value_set(&arr))
        }};
    }
    match vals.len() {
        0 => {
            let arr: [(&Field, Option<&dyn Value>); 0] = [];
            f(&fs.value_set(&arr))
        }
        1 => go!(0),
        2 => go!(0, 1),
        3 => go!(0, 1, 2),
        4 => go!(0, 1, 2, 3),
        5 => go!(0, 1, 2, 3, 4),
        6 => go!(0, 1, 2, 3, 4, 5),
        7 => go!(0, 1, 2, 3, 4, 5, 6),
        8 => go!(0, 1, 2, 3, 4, 5, 6, 7),
        n => panic!("HARNESS: {n} fields not supported"),
    }
}

// ---------------------------------------------------------------- field values

const BOMB_PAYLOAD: &str = "C13-BOMB";

/// writes its marker, then panics
struct Bomb(String);
impl fmt::Debug for Bomb {
    fn fmt(&self, f: &mut fmt::Formatter<'_>) -> fmt::Result {
        f.write_str(&self.0)?;
        panic!("{}", BOMB_PAYLOAD);
    }
}
impl fmt::Display for Bomb {
    fn fmt(&self, f: &mut fmt::Formatter<'_>) -> fmt::Result {
        f.write_str(&self.0)?;
        panic!("{}", BOMB_PAYLOAD);
    }
}
/// the non-panicking stand-in: marker + "-ok"
struct Twin(String);
impl fmt::Debug for Twin {
    fn fmt(&self, f: &mut fmt::Formatter<'_>) -> fmt::Result {
        f.write_str(&self.0)?;
        f.write_str("-ok")
    }
}
impl fmt::Display for Twin {
    fn fmt(&self, f: &mut fmt::Formatter<'_>) -> fmt::Result {
        f.write_str(&self.0)?;
        f.write_str("-ok")
    }
}

#[derive(Clone, Debug, PartialEq)]
enum Val {
    U64(u64),
    I64(i64),
    Bool(bool),
    F64(f64),
    Str(String),
    /// `%value`
    Disp(String),
    /// `?value`
    DbgVec(Vec<i32>),
    DbgOpt(Option<String>),
    /// panicking Debug (false) / Display (true) value with marker
    Bomb(String, bool),
    /// its stand-in
    Twin(String, bool),
}

impl Val {
    /// the text the documentation promises in the human-readable formats (Debug for typed
    /// values and `?`, Display for `%` and the message)
    fn text(&self) -> String {
        match self {
            Val::U64(v) => format!("{v:?}"),
            Val::I64(v) => format!("{v:?}"),
            Val::Bool(v) => format!("{v:?}"),
            Val::F64(v) => format!("{v:?}"),
            Val::Str(v) => format!("{v:?}"),
            Val::Disp(v) => v.clone(),
            Val::DbgVec(v) => format!("{v:?}"),
            Val::DbgOpt(v) => format!("{v:?}"),
            Val::Bomb(m, _) => m.clone(),
            Val::Twin(m, _) => format!("{m}-ok"),
        }
    }
    /// does the parsed JSON value carry this value (typed mapping: numbers as numbers, bool,
    /// str as string, `%`/`?` as the string of their Display/Debug text)
    fn json_ok(&self, j: &J) -> bool {
        match self {
            Val::U64(v) => j.as_i128() == Some(*v as i128),
            Val::I64(v) => j.as_i128() == Some(*v as i128),
            Val::Bool(v) => *j == J::Bool(*v),
            Val::F64(v) => j.as_f64() == Some(*v),
            Val::Str(v) | Val::Disp(v) => j.as_str() == Some(v.as_str()),
            Val::DbgVec(_) | Val::DbgOpt(_) | Val::Twin(..) | Val::Bomb(..) => j.as_str() == Some(self.text().as_str()),
        }
    }
    fn kind_code(&self) -> char {
        match self {
            Val::U64(_) => 'u',
            Val::I64(_) => 'i',
            Val::Bool(_) => 'b',
            Val::F64(_) => 'f',
            Val::Str(_) => 's',
            Val::Disp(_) => '%',
            Val::DbgVec(_) | Val::DbgOpt(_) => '?',
            Val::Bomb(..) => 'B',
            Val::Twin(..) => 'T',
        }
    }
}

/// owned storage that can hand out `&dyn Value`
enum Held {
    U64(u64),
    I64(i64),
    Bool(bool),
    F64(f64),
    Str(String),
    Disp(DisplayValue<String>),
    DbgVec(DebugValue<Vec<i32>>),
    DbgOpt(DebugValue<Option<String>>),
    BombD(DebugValue<Bomb>),
    BombP(DisplayValue<Bomb>),
    TwinD(DebugValue<Twin>),
    TwinP(DisplayValue<Twin>),
}
impl Held {
    fn of(v: &Val) -> Held {
        match v {
            Val::U64(x) => Held::U64(*x),
            Val::I64(x) => Held::I64(*x),
            Val::Bool(x) => Held::Bool(*x),
            Val::F64(x) => Held::F64(*x),
            Val::Str(x) => Held::Str(x.clone()),
            Val::Disp(x) => Held::Disp(display(x.clone())),
            Val::DbgVec(x) => Held::DbgVec(debug(x.clone())),
            Val::DbgOpt(x) => Held::DbgOpt(debug(x.clone())),
            Val::Bomb(m, false) => Held::BombD(debug(Bomb(m.clone()))),
            Val::Bomb(m, true) => Held::BombP(display(Bomb(m.clone()))),
            Val::Twin(m, false) => Held::TwinD(debug(Twin(m.clone()))),
            Val::Twin(m, true) => Held::TwinP(display(Twin(m.clone()))),
        }
    }
    fn as_value(&self) -> &dyn Value {
        match self {
            Held::U64(x) => x,
            Held::I64(x) => x,
            Held::Bool(x) => x,
            Held::F64(x) => x,
            Held::Str(x) => x,
            Held::Disp(x) => x,
            Held::DbgVec(x) => x,
            Held::DbgOpt(x) => x,
            Held::BombD(x) => x,
            Held::BombP(x) => x,
            Held::TwinD(x) => x,
            Held::TwinP(x) => x,
        }
    }
}

/// Run `f` with a ValueSet for `fields` (names must be the metadata's field names in order).
fn with_fields<R>(meta: &'static Metadata<'static>, fields: &[(String, Val)], f: impl FnOnce(&ValueSet<'_>) -> R) -> R {
    let held: Vec<Held> = fields.iter().map(|(_, v)| Held::of(v)).collect();
    let refs: Vec<&dyn Value> = held.iter().map(|h| h.as_value()).collect();
    with_values(meta, &refs, f)
}

// ---------------------------------------------------------------- generators

const STR_ALPHABET: &[char] = &[
    'a', 'b', 'c', 'd', 'e', 'k', 'm', 'o', 'r', 's', 't', 'u', 'x', 'z', '0', '1', '2', '7', '9', ' ', ' ', '-', '_', '.',
    '/', ':', ',', ';', '\'', '"', '\\', '=', '{', '}', '(', ')', '[', ']', 'é', 'ß', '日', '😀', '\t',
];
/// no '#', no newline / CR, no ESC, no upper-case letters (level names are upper-case)
fn gen_string(rng: &mut Rng, max: usize) -> String {
    let n = rng.usize(max + 1);
    (0..n).map(|_| *rng.pick(STR_ALPHABET)).collect()
}
const F64S: &[f64] = &[0.0, -0.0, 1.5, -2.25, 1e21, 1e-7, 123456.789, f64::MAX, f64::MIN_POSITIVE, 3.0, -1e300];

fn gen_val(rng: &mut Rng) -> Val {
    match rng.below(9) {
        0 => Val::U64(if rng.bool() { rng.next_u64() } else { rng.below(1000) }),
        1 => Val::I64(if rng.bool() { rng.next_u64() as i64 } else { rng.range(-500, 500) }),
        2 => Val::Bool(rng.bool()),
        3 => Val::F64(*rng.pick(F64S)),
        4 | 5 => Val::Str(gen_string(rng, 12)),
        6 => Val::Disp(gen_string(rng, 12)),
        7 => Val::DbgVec((0..rng.usize(4)).map(|_| rng.range(-9, 99) as i32).collect()),
        _ => Val::DbgOpt(if rng.bool() { Some(gen_string(rng, 6)) } else { None }),
    }
}

/// field names: no "message", no "log." / "r#" prefixes (special-cased by the formatters),
/// none of the JSON formatter's reserved keys
const FIELD_NAMES: &[&str] = &["a", "b", "n", "id", "count", "user.id", "key_9", "ok", "path", "na\u{ef}ve", "q", "v2"];
const SPAN_NAMES: &[&str] = &["root", "mid", "leaf", "sp_a", "request", "gr\u{f6}sse", "s1", "work-er"];
const TARGETS: &[&str] = &["app", "app::db", "net", "c13-t.x"];

fn gen_fields(rng: &mut Rng, max: usize) -> Vec<(String, Val)> {
    let n = rng.usize(max + 1);
    let mut names: Vec<&str> = FIELD_NAMES.to_vec();
    rng.shuffle(&mut names);
    names.truncate(n);
    names.into_iter().map(|k| (k.to_string(), gen_val(rng))).collect()
}
