// C13 part C: the oracle — call-log automaton, per-format content reading, F7 signature.

fn strip_ansi(s: &str) -> String {
    let b = s.as_bytes();
    let mut out = Vec::with_capacity(b.len());
    let mut i = 0;
    while i < b.len() {
        if b[i] == 0x1b && i + 1 < b.len() && b[i + 1] == b'[' {
            i += 2;
            while i < b.len() && !(0x40..=0x7e).contains(&b[i]) {
                i += 1;
            }
            i += 1; // final byte
        } else {
            out.push(b[i]);
            i += 1;
        }
    }
    String::from_utf8(out).expect("HARNESS: ANSI stripping broke UTF-8")
}

/// id tokens `#E<th>x<n>#` (events) and `#S<th>x<n>#` (spans)
fn scan_tokens(s: &str) -> (Vec<String>, Vec<String>) {
    let b = s.as_bytes();
    let (mut ev, mut sp) = (vec![], vec![]);
    let mut i = 0;
    while i + 2 < b.len() {
        if b[i] == b'#' && (b[i + 1] == b'E' || b[i + 1] == b'S') {
            let mut j = i + 2;
            while j < b.len() && (b[j].is_ascii_digit() || b[j] == b'x') {
                j += 1;
            }
            if j < b.len() && b[j] == b'#' && j > i + 2 {
                let t = s[i..=j].to_string();
                if b[i + 1] == b'E' {
                    ev.push(t)
                } else {
                    sp.push(t)
                }
                i = j + 1;
                continue;
            }
        }
        i += 1;
    }
    (ev, sp)
}

/// Replace the digits of every `dddd-dd-ddTdd:dd:dd.ddddddZ` by '0' (same length): the
/// timestamp text is located, never compared.
fn mask_ts(b: &[u8]) -> Vec<u8> {
    const PAT: &[u8] = b"dddd-dd-ddTdd:dd:dd.ddddddZ";
    let mut out = b.to_vec();
    let mut i = 0;
    while i + PAT.len() <= out.len() {
        let hit = PAT.iter().enumerate().all(|(k, &p)| if p == b'd' { out[i + k].is_ascii_digit() } else { out[i + k] == p });
        if hit {
            for k in 0..PAT.len() {
                if PAT[k] == b'd' {
                    out[i + k] = b'0';
                }
            }
            i += PAT.len();
        } else {
            i += 1;
        }
    }
    out
}

fn span_sid(sp: &SpanM) -> Option<String> {
    sp.fields.iter().find(|(k, _)| k == "sid").map(|(_, v)| match v {
        Val::Str(s) => s.clone(),
        _ => unreachable!(),
    })
}
/// `k=v k2=v2` (default field formatter, as in the documentation examples)
fn default_fields(fs: &[(String, Val)]) -> String {
    fs.iter().map(|(k, v)| format!("{k}={}", v.text())).collect::<Vec<_>>().join(" ")
}
/// `k: v, k2: v2` (pretty)
fn pretty_fields(fs: &[(String, Val)]) -> String {
    fs.iter().map(|(k, v)| format!("{k}: {}", v.text())).collect::<Vec<_>>().join(", ")
}

fn json_span_ok(j: &J, sp: &SpanM) -> Result<(), String> {
    let Some(_) = j.as_obj() else { return Err("span entry is not an object".into()) };
    if j.get("name").and_then(|n| n.as_str()) != Some(sp.name.as_str()) {
        return Err(format!("span object does not carry name {:?}", sp.name));
    }
    for (k, v) in &sp.fields {
        match j.get(k) {
            Some(x) if v.json_ok(x) => {}
            Some(x) => return Err(format!("span {:?}: field {k} has value {x:?}, expected {v:?}", sp.name)),
            None => return Err(format!("span {:?}: field {k} missing", sp.name)),
        }
    }
    Ok(())
}
fn json_span_list_ok(arr: &[J], spans: &[SpanM], idxs: &[usize]) -> Result<(), String> {
    if arr.len() != idxs.len() {
        return Err(format!("`spans` lists {} spans, expected {}", arr.len(), idxs.len()));
    }
    for (j, &i) in arr.iter().zip(idxs) {
        json_span_ok(j, &spans[i])?;
    }
    Ok(())
}

#[derive(Default)]
struct Seen {
    json_spans_current_not_scope: u64,
    target_shown: u64,
}

/// Content check of ONE recorded write buffer against the expectation, reading "names the
/// level, every span in scope in nesting order with its fields, every event field with its
/// value" per format as documented (DESIGN.md 5/C13).
fn check_record(cfg: &Cfg, spans: &[SpanM], exp: &Expect, bytes: &[u8], seen: &mut Seen) -> Result<(), String> {
    let Ok(raw) = std::str::from_utf8(bytes) else { return Err("buffer is not UTF-8".into()) };
    if !raw.ends_with('\n') {
        return Err("buffer does not end in a newline".into());
    }
    if cfg.fmt != 2 && raw.matches('\n').count() != 1 {
        return Err(format!("buffer contains {} newlines, the format is one line per record", raw.matches('\n').count()));
    }
    let s = strip_ansi(raw);
    let (ev_ids, sids) = scan_tokens(&s);
    match &exp.id {
        Some(id) => {
            if ev_ids.len() != 1 || &ev_ids[0] != id {
                return Err(format!("buffer carries event ids {ev_ids:?}, expected exactly [{id}]"));
            }
        }
        None => {
            if !ev_ids.is_empty() {
                return Err(format!("span lifecycle record carries event ids {ev_ids:?}"));
            }
        }
    }
    let scope: Vec<&SpanM> = exp.scope.iter().map(|&i| &spans[i]).collect();
    let want_sids: Vec<String> = scope.iter().filter_map(|sp| span_sid(sp)).collect();
    if cfg.fmt != 3 {
        let mut a = sids.clone();
        let mut b = want_sids.clone();
        a.sort();
        b.sort();
        if a != b {
            return Err(format!("buffer carries span ids {sids:?}, the spans in scope have {want_sids:?}"));
        }
    } else {
        let cur_sids: Vec<String> = exp.current.iter().filter_map(|&i| span_sid(&spans[i])).collect();
        if let Some(x) = sids.iter().find(|x| !want_sids.contains(x) && !cur_sids.contains(x)) {
            return Err(format!("buffer carries span id {x} of a span neither in scope nor entered"));
        }
    }
    if s.contains(exp.target.as_str()) {
        seen.target_shown += 1;
    }
    let lvl_name = LEVEL_NAMES[exp.level];
    let msg_text = |v: &Val| v.text();
    match cfg.fmt {
        0 => {
            let line = &s[..s.len() - 1];
            if cfg.level && !line.contains(lvl_name) {
                return Err(format!("level {lvl_name} not named"));
            }
            let mut rest = line;
            if !scope.is_empty() {
                let mut pre = String::new();
                for sp in &scope {
                    pre.push_str(&sp.name);
                    if !sp.fields.is_empty() {
                        pre.push('{');
                        pre.push_str(&default_fields(&sp.fields));
                        pre.push('}');
                    }
                    pre.push(':');
                }
                pre.push(' ');
                let Some(pos) = line.find(&pre) else {
                    return Err(format!("span context {pre:?} (root to leaf, name{{fields}}:) not found"));
                };
                if pos > 0 && !line[..pos].ends_with(' ') {
                    return Err(format!("span context {pre:?} is preceded by further span text"));
                }
                rest = &line[pos + pre.len()..];
            }
            for (k, v) in &exp.fields {
                if k == "message" {
                    let t = msg_text(v);
                    let ok = if exp.life.is_some() { rest.split(' ').any(|w| w == t) } else { rest.contains(&t) };
                    if !ok {
                        return Err(format!("message {t:?} not found after the span context"));
                    }
                } else {
                    let kv = format!("{k}={}", v.text());
                    if !rest.contains(&kv) {
                        return Err(format!("event field {kv:?} not found after the span context"));
                    }
                }
            }
        }
        1 => {
            let line = &s[..s.len() - 1];
            if cfg.level {
                let idx = if cfg.timer != 0 { 1 } else { 0 };
                let tok = line.split(' ').nth(idx);
                if tok != Some(COMPACT_SYMS[exp.level]) {
                    return Err(format!("level symbol {:?} for {lvl_name} not at its place (found {tok:?})", COMPACT_SYMS[exp.level]));
                }
            }
            let parts: Vec<String> = scope.iter().filter(|sp| !sp.fields.is_empty()).map(|sp| default_fields(&sp.fields)).collect();
            let mut head = line;
            if !parts.is_empty() {
                let suf = format!(" {}", parts.join(" "));
                let Some(pos) = line.rfind(&suf) else {
                    return Err(format!("span fields {suf:?} (root to leaf) not found"));
                };
                head = &line[..pos];
            }
            for (k, v) in &exp.fields {
                if k == "message" {
                    let t = msg_text(v);
                    let ok = if exp.life.is_some() { head.split(' ').any(|w| w == t || w.ends_with(&format!(":{t}"))) } else { head.contains(&t) };
                    if !ok {
                        return Err(format!("message {t:?} not found before the span fields"));
                    }
                } else {
                    let kv = format!("{k}={}", v.text());
                    if !head.contains(&kv) {
                        return Err(format!("event field {kv:?} not found before the span fields"));
                    }
                }
            }
        }
        2 => {
            let lines: Vec<&str> = s.split('\n').collect();
            let first = lines[0];
            if cfg.level && !first.contains(lvl_name) {
                return Err(format!("level {lvl_name} not named on the first line"));
            }
            for (k, v) in &exp.fields {
                if k == "message" {
                    let t = msg_text(v);
                    let ok = if exp.life.is_some() { first.split([' ', ',']).any(|w| w == t) } else { first.contains(&t) };
                    if !ok {
                        return Err(format!("message {t:?} not on the first line"));
                    }
                } else {
                    let kv = format!("{k}: {}", v.text());
                    if !first.contains(&kv) {
                        return Err(format!("event field {kv:?} not on the first line"));
                    }
                }
            }
            let in_lines: Vec<&str> = lines.iter().copied().filter(|l| l.starts_with("    in ")).collect();
            if in_lines.len() != scope.len() {
                return Err(format!("{} `in <span>` lines, {} spans in scope", in_lines.len(), scope.len()));
            }
            for (l, sp) in in_lines.iter().zip(scope.iter().rev()) {
                let w = if sp.fields.is_empty() { String::new() } else { format!(" with {}", pretty_fields(&sp.fields)) };
                let a = format!("    in {}{w}", sp.name);
                let b = format!("    in {}::{}{w}", sp.target, sp.name);
                if *l != a && *l != b {
                    return Err(format!("span line {l:?} is not {a:?} / {b:?} (leaf to root)"));
                }
            }
        }
        _ => {
            let line = &raw[..raw.len() - 1];
            let j = match vlib::json::parse(line) {
                Ok(j) => j,
                Err(e) => return Err(format!("line is not valid JSON: {} at {}", e.msg, e.pos)),
            };
            if j.as_obj().is_none() {
                return Err("line is not a JSON object".into());
            }
            if cfg.level && j.get("level").and_then(|l| l.as_str()) != Some(lvl_name) {
                return Err(format!("\"level\" is {:?}, expected {lvl_name}", j.get("level")));
            }
            let fobj = if cfg.json_flatten { Some(&j) } else { j.get("fields") };
            let Some(fobj) = fobj.filter(|f| f.as_obj().is_some()) else {
                return Err("no \"fields\" object".into());
            };
            for (k, v) in &exp.fields {
                match fobj.get(k) {
                    Some(x) if v.json_ok(x) => {}
                    Some(x) => return Err(format!("event field {k} has value {x:?}, expected {v:?}")),
                    None => return Err(format!("event field {k} missing")),
                }
            }
            if !scope.is_empty() {
                if cfg.json_cur {
                    let Some(sp) = j.get("span") else { return Err("no \"span\" object although a span is in scope".into()) };
                    json_span_ok(sp, scope[scope.len() - 1])?;
                }
                if cfg.json_list {
                    let Some(arr) = j.get("spans").and_then(|a| a.as_arr()) else {
                        return Err("no \"spans\" array although a span is in scope".into());
                    };
                    if let Err(e) = json_span_list_ok(arr, spans, &exp.scope) {
                        // documented as "all currently entered spans": for records whose scope
                        // comes from an explicit parent / a lifecycle point either reading is accepted
                        if exp.explicit && json_span_list_ok(arr, spans, &exp.current).is_ok() {
                            seen.json_spans_current_not_scope += 1;
                        } else {
                            return Err(format!("\"spans\": {e}"));
                        }
                    }
                }
            }
        }
    }
    Ok(())
}

fn lossy(b: &[u8]) -> String {
    String::from_utf8_lossy(b).into_owned()
}

/// F7 signature: R = P ++ C, C a clean record of the expected event, P a non-empty prefix of
/// the twin record T (timestamps masked) that ends no later than the panicking value's marker
/// and carries the aborted event's id.
fn f7_split(cfg: &Cfg, spans: &[SpanM], exp: &Expect, r: &[u8], t: &[u8], bomb: &BombInfo) -> Option<usize> {
    let rm = mask_ts(r);
    let tm = mask_ts(t);
    let m_end = match find_sub(&tm, bomb.marker.as_bytes()) {
        Some(p) => p + bomb.marker.len(),
        None => tm.len(),
    };
    let lcp = rm.iter().zip(tm.iter()).take_while(|(a, b)| a == b).count().min(m_end);
    let Ok(rs) = std::str::from_utf8(r) else { return None };
    let mut seen = Seen::default();
    for k in (1..=lcp).rev() {
        if !rs.is_char_boundary(k) {
            continue;
        }
        let (ev, _) = scan_tokens(&strip_ansi(&rs[..k]));
        if ev.len() != 1 || ev[0] != bomb.id {
            // P no longer carries the aborted id: shorter prefixes will not either
            if ev.is_empty() {
                return None;
            }
            continue;
        }
        if check_record(cfg, spans, exp, &r[k..], &mut seen).is_ok() {
            return Some(k);
        }
    }
    None
}
fn find_sub(h: &[u8], n: &[u8]) -> Option<usize> {
    if n.is_empty() || h.len() < n.len() {
        return None;
    }
    (0..=h.len() - n.len()).find(|&i| &h[i..i + n.len()] == n)
}

struct JudgeCtx<'a> {
    cfg: &'a Cfg,
    part: &'a str,
    hidx: u64,
    nthreads: usize,
}

/// Judge one thread's history against the records that thread produced.
fn judge_thread(ctx: &JudgeCtx<'_>, h: &ThreadHist, recs: &[Rec], out: &mut Out) {
    let cfg = ctx.cfg;
    let mut by_op: HashMap<u64, Vec<&Rec>> = HashMap::new();
    for r in recs.iter().filter(|r| r.th == h.th) {
        by_op.entry(r.op).or_default().push(r);
    }
    let witness = |upto: usize, detail: JValue| -> JValue {
        let lo = upto.saturating_sub(12);
        json!({"part": ctx.part, "history_index": ctx.hidx, "threads": ctx.nthreads, "thread": h.th, "thread_named": h.named,
               "config": cfg.describe(),
               "ops_before (last 12)": h.ops[lo..upto.min(h.ops.len())].iter().enumerate().map(|(i, o)| format!("op{}: {}", lo + i + 1, o.desc)).collect::<Vec<_>>(),
               "detail": detail,
               "replay_hint": format!("re-run the child with part={} only={}", ctx.part, ctx.hidx)})
    };
    let mut seen = Seen::default();
    let mut pending: Option<(BombInfo, Vec<u8>)> = None;
    let mut twin_bytes: HashMap<u64, Vec<u8>> = HashMap::new();
    'ops: for (k, op) in h.ops.iter().enumerate() {
        let opno = (k + 1) as u64;
        let empty = vec![];
        let rs = by_op.get(&opno).unwrap_or(&empty);
        if let Some(b) = &op.bomb {
            out.count("bomb_events", 1);
            if !rs.is_empty() {
                out.count("bomb_op_records", rs.len() as u64);
            }
            if b.panicked {
                match twin_bytes.get(&b.twin_op) {
                    Some(t) => pending = Some((b.clone(), t.clone())),
                    None => panic!("HARNESS: twin record of op {} not captured", b.twin_op),
                }
            } else {
                out.count("bomb_did_not_panic", 1);
            }
            continue;
        }
        let mut i = 0usize;
        for exp in &op.expects {
            out.evals += 1;
            let kind = exp.life.unwrap_or("event");
            out.count(&format!("records_{kind}"), 1);
            let fail = |what: String, out: &mut Out, observed: JValue| {
                out.violation(
                    format!("{} [{} record, format {}]", what, kind, FMT_NAMES[cfg.fmt as usize]),
                    witness(k + 1, json!({"op": format!("op{opno}: {}", op.desc), "expected_record": kind,
                        "expected_level": LEVEL_NAMES[exp.level], "expected_target": exp.target,
                        "expected_scope (root to leaf)": exp.scope.iter().map(|&s| format!("{} [{}]", h.spans[s].name, fields_desc(&h.spans[s].fields))).collect::<Vec<_>>(),
                        "observed": observed,
                        "calls_of_this_op": rs.iter().map(|r| match &r.kind {
                            RecKind::Make(m) => format!("w{} make_writer{}", r.w, match m { Some((l, t)) => format!("_for(level={}, target={t})", LEVEL_NAMES[*l]), None => "()".into() }),
                            RecKind::Write(b) => format!("w{} write({:?})", r.w, lossy(b)),
                            RecKind::Flush => format!("w{} flush", r.w),
                        }).collect::<Vec<_>>()})),
                );
            };
            // --- automaton: one make_writer_for(meta of this record) ...
            let w = match rs.get(i) {
                Some(Rec { w, kind: RecKind::Make(Some((l, t))), .. }) => {
                    if *l != exp.level || t != &exp.target {
                        fail(format!("make_writer_for called with metadata level={} target={t}, the record's is level={} target={}", LEVEL_NAMES[*l], LEVEL_NAMES[exp.level], exp.target), out, JValue::Null);
                        break 'ops;
                    }
                    *w
                }
                Some(Rec { kind: RecKind::Make(None), .. }) => {
                    fail("make_writer() called instead of make_writer_for(metadata)".into(), out, JValue::Null);
                    break 'ops;
                }
                Some(_) => {
                    fail("write/flush on a writer before any make_writer_for call for this record".into(), out, JValue::Null);
                    break 'ops;
                }
                None => {
                    fail("no make_writer_for call: the record was not written".into(), out, JValue::Null);
                    break 'ops;
                }
            };
            i += 1;
            // --- ... then exactly one write on that writer
            let bytes = match rs.get(i) {
                Some(Rec { w: w2, kind: RecKind::Write(b), .. }) if *w2 == w => b,
                _ => {
                    fail("no write call on the writer produced for this record".into(), out, JValue::Null);
                    break 'ops;
                }
            };
            i += 1;
            let mut extra = 0;
            while let Some(r) = rs.get(i) {
                match &r.kind {
                    RecKind::Write(_) if r.w == w => extra += 1,
                    RecKind::Flush if r.w == w => out.count("flushes", 1),
                    _ => break,
                }
                i += 1;
            }
            if extra > 0 {
                fail(format!("record handed to the writer in {} write calls instead of one", extra + 1), out, json!(lossy(bytes)));
                break 'ops;
            }
            out.count("make_writer_for_calls", 1);
            out.count("write_calls", 1);
            // --- content
            let res = check_record(cfg, &h.spans, exp, bytes, &mut seen);
            let after_bomb = pending.take();
            match (res, after_bomb) {
                (Ok(()), ab) => {
                    if ab.is_some() {
                        out.count("post_panic_record_clean", 1);
                    }
                    let sig = format!("{}|{kind}|d{}", cfg.code(), exp.scope.len());
                    if out.evals % 64 == 0 {
                        for (_, v) in &exp.fields {
                            out.set("field_value_kinds", v.kind_code().to_string());
                        }
                    }
                    out.distinct_str(&sig);
                    if exp.scope.len() >= 2 && exp.life.is_none() && out.samples.len() < 4
                        && !out.samples.iter().any(|x| x["config"]["format"] == FMT_NAMES[cfg.fmt as usize])
                    {
                        out.sample(json!({"part": ctx.part, "config": cfg.describe(), "op": op.desc, "buffer": lossy(bytes)}));
                    }
                }
                (Err(why), Some((b, t))) => {
                    if let Some(kx) = f7_split(cfg, &h.spans, exp, bytes, &t, &b) {
                        out.count("F7_contaminated_records", 1);
                        out.set("F7_formats", FMT_NAMES[cfg.fmt as usize]);
                        out.finding(
                            "F7",
                            "after a caught formatting panic the thread-local buffer keeps the partial record and prefixes it to the next record of that thread",
                            witness(k + 1, json!({"aborted_event": h.ops[k - 1].desc, "next_op": op.desc,
                                "observed_buffer": lossy(bytes), "partial_text_of_aborted_record (prefix)": lossy(&bytes[..kx]),
                                "clean_record (rest)": lossy(&bytes[kx..]), "twin_record_of_aborted_event": lossy(&t),
                                "plain_check_said": why})),
                        );
                    } else {
                        fail(format!("record following a caught formatting panic is damaged beyond the F7 signature: {why}"), out,
                             json!({"buffer": lossy(bytes), "twin_record_of_aborted_event": lossy(&t)}));
                        break 'ops;
                    }
                }
                (Err(why), None) => {
                    fail(why, out, json!(lossy(bytes)));
                    break 'ops;
                }
            }
            if op.twin {
                twin_bytes.insert(opno, bytes.clone());
            }
        }
        if i < rs.len() {
            let exp_n = op.expects.len();
            out.violation(
                format!("{} unexpected make_writer/write calls after the {} expected record(s) of an operation [format {}]", rs.len() - i, exp_n, FMT_NAMES[cfg.fmt as usize]),
                witness(k + 1, json!({"op": format!("op{opno}: {}", op.desc),
                    "extra_calls": rs[i..].iter().map(|r| format!("{:?}", r.kind)).collect::<Vec<_>>()})),
            );
            break 'ops;
        }
    }
    if let Some(p) = &h.stray_panic {
        out.violation(format!("panic escaped from the fmt subscriber: {p}"), witness(h.ops.len(), json!({"panic": p})));
    }
    out.count("json_spans_is_current_stack_not_scope", seen.json_spans_current_not_scope);
    out.count("target_text_present", seen.target_shown);
}
