// C13 part D: writer combinator expressions, their denotation, and the routing checks.

const NSINKS: usize = 2;
const NPREDS: usize = 2;
/// unary operators: max(L) x5, min(L) x5, filter(P) x2
const NUNARY: usize = 5 + 5 + NPREDS;
/// targets used for routing: truth tables of the predicates are (T,F,F) and (T,T,F)
const RTARGETS: [&str; 3] = ["app", "app::db", "net"];

type Pred = fn(&Metadata<'_>) -> bool;
fn pred0(m: &Metadata<'_>) -> bool {
    m.target() == "app"
}
fn pred1(m: &Metadata<'_>) -> bool {
    m.target().starts_with("app")
}
const PREDS: [Pred; NPREDS] = [pred0, pred1];
const PRED_TEXT: [&str; NPREDS] = ["|m| m.target() == \"app\"", "|m| m.target().starts_with(\"app\")"];
/// the predicates, evaluated by the oracle on the target *index*
fn pred_model(p: usize, tgt: usize) -> bool {
    match p {
        0 => tgt == 0,
        _ => tgt <= 1,
    }
}

#[derive(Clone, Debug, PartialEq)]
enum Expr {
    Sink(usize),
    Max(Box<Expr>, usize),
    Min(Box<Expr>, usize),
    Filt(Box<Expr>, usize),
    And(Box<Expr>, Box<Expr>),
    /// first operand is always Max / Min / Filt (the only shapes whose writer is an OptionalWriter)
    OrElse(Box<Expr>, Box<Expr>),
}
impl Expr {
    fn is_opt(&self) -> bool {
        matches!(self, Expr::Max(..) | Expr::Min(..) | Expr::Filt(..))
    }
    fn depth(&self) -> usize {
        match self {
            Expr::Sink(_) => 0,
            Expr::Max(e, _) | Expr::Min(e, _) | Expr::Filt(e, _) => 1 + e.depth(),
            Expr::And(a, b) | Expr::OrElse(a, b) => 1 + a.depth().max(b.depth()),
        }
    }
    fn show(&self) -> String {
        match self {
            Expr::Sink(i) => format!("S{i}"),
            Expr::Max(e, l) => format!("{}.with_max_level({})", e.show(), LEVEL_NAMES[*l]),
            Expr::Min(e, l) => format!("{}.with_min_level({})", e.show(), LEVEL_NAMES[*l]),
            Expr::Filt(e, p) => format!("{}.with_filter({})", e.show(), PRED_TEXT[*p]),
            Expr::And(a, b) => format!("({}).and({})", a.show(), b.show()),
            Expr::OrElse(a, b) => format!("({}).or_else({})", a.show(), b.show()),
        }
    }
    fn unary(op: usize, e: Expr) -> Expr {
        match op {
            0..=4 => Expr::Max(Box::new(e), op + 1),
            5..=9 => Expr::Min(Box::new(e), op - 4),
            _ => Expr::Filt(Box::new(e), op - 10),
        }
    }
}

// ---- the oracle: denotation from the documentation of each combinator -------------------
// with_max_level(L): output only for events at or below verbosity L, otherwise none()
// with_min_level(L): output only for events at or above verbosity L, otherwise none()
// with_filter(p):    the wrapped writer when p(meta), otherwise none()
// a.and(b):          writes to both
// a.or_else(b):      b is used when a returns none() — i.e. when a's own (outermost)
//                    condition fails; otherwise whatever a's wrapped writer does
fn own_condition(e: &Expr, lvl: usize, tgt: usize) -> bool {
    match e {
        Expr::Max(_, l) => lvl <= *l,
        Expr::Min(_, l) => lvl >= *l,
        Expr::Filt(_, p) => pred_model(*p, tgt),
        _ => panic!("HARNESS: or_else over a non-optional writer"),
    }
}
fn denote(e: &Expr, lvl: usize, tgt: usize, out: &mut [u32; NSINKS]) {
    match e {
        Expr::Sink(i) => out[*i] += 1,
        Expr::Max(x, _) | Expr::Min(x, _) | Expr::Filt(x, _) => {
            if own_condition(e, lvl, tgt) {
                denote(x, lvl, tgt, out)
            }
        }
        Expr::And(a, b) => {
            denote(a, lvl, tgt, out);
            denote(b, lvl, tgt, out);
        }
        Expr::OrElse(a, b) => {
            if own_condition(a, lvl, tgt) {
                denote(a, lvl, tgt, out)
            } else {
                denote(b, lvl, tgt, out)
            }
        }
    }
}

// ---- the real combinators, nested dynamically through two delegating enums ---------------
enum OptNode {
    Max(WithMaxLevel<Node>),
    Min(WithMinLevel<Node>),
    Filt(WithFilter<Node, Pred>),
}
enum Node {
    Sink(RecSink),
    Opt(Box<OptNode>),
    And(Box<Tee<Node, Node>>),
    OrElse(Box<OrElse<OptNode, Node>>),
    /// the type-erased factory (`BoxMakeWriter::new(node)`): same denotation as `node`
    Boxed(tracing_subscriber::fmt::writer::BoxMakeWriter),
}
impl<'a> MakeWriter<'a> for OptNode {
    type Writer = OptionalWriter<Box<dyn io::Write + 'a>>;
    fn make_writer(&'a self) -> Self::Writer {
        match self {
            OptNode::Max(m) => m.make_writer(),
            OptNode::Min(m) => m.make_writer(),
            OptNode::Filt(m) => m.make_writer(),
        }
    }
    fn make_writer_for(&'a self, meta: &Metadata<'_>) -> Self::Writer {
        match self {
            OptNode::Max(m) => m.make_writer_for(meta),
            OptNode::Min(m) => m.make_writer_for(meta),
            OptNode::Filt(m) => m.make_writer_for(meta),
        }
    }
}
impl<'a> MakeWriter<'a> for Node {
    type Writer = Box<dyn io::Write + 'a>;
    fn make_writer(&'a self) -> Self::Writer {
        match self {
            Node::Sink(s) => Box::new(s.make_writer()),
            Node::Opt(o) => Box::new(o.make_writer()),
            Node::And(t) => Box::new(t.make_writer()),
            Node::OrElse(o) => Box::new(o.make_writer()),
            Node::Boxed(b) => Box::new(b.make_writer()),
        }
    }
    fn make_writer_for(&'a self, meta: &Metadata<'_>) -> Self::Writer {
        match self {
            Node::Sink(s) => Box::new(s.make_writer_for(meta)),
            Node::Opt(o) => Box::new(o.make_writer_for(meta)),
            Node::And(t) => Box::new(t.make_writer_for(meta)),
            Node::OrElse(o) => Box::new(o.make_writer_for(meta)),
            Node::Boxed(b) => Box::new(b.make_writer_for(meta)),
        }
    }
}
fn build_opt(e: &Expr, sinks: &[RecSink]) -> OptNode {
    match e {
        Expr::Max(x, l) => OptNode::Max(build_node(x, sinks).with_max_level(level_of(*l))),
        Expr::Min(x, l) => OptNode::Min(build_node(x, sinks).with_min_level(level_of(*l))),
        Expr::Filt(x, p) => OptNode::Filt(build_node(x, sinks).with_filter(PREDS[*p])),
        _ => panic!("HARNESS: not an optional-writer expression"),
    }
}
fn build_node(e: &Expr, sinks: &[RecSink]) -> Node {
    match e {
        Expr::Sink(i) => Node::Sink(sinks[*i].clone()),
        Expr::Max(..) | Expr::Min(..) | Expr::Filt(..) => Node::Opt(Box::new(build_opt(e, sinks))),
        Expr::And(a, b) => Node::And(Box::new(build_node(a, sinks).and(build_node(b, sinks)))),
        Expr::OrElse(a, b) => Node::OrElse(Box::new(build_opt(a, sinks).or_else(build_node(b, sinks)))),
    }
}

// ---- enumeration: D(n) = leaves ∪ ops(D(n-1)) ------------------------------------------
fn next_level(prev: &[Expr]) -> Vec<Expr> {
    let mut v: Vec<Expr> = (0..NSINKS).map(Expr::Sink).collect();
    for op in 0..NUNARY {
        for e in prev {
            v.push(Expr::unary(op, e.clone()));
        }
    }
    for a in prev {
        for b in prev {
            v.push(Expr::And(Box::new(a.clone()), Box::new(b.clone())));
        }
    }
    for a in prev.iter().filter(|e| e.is_opt()) {
        for b in prev {
            v.push(Expr::OrElse(Box::new(a.clone()), Box::new(b.clone())));
        }
    }
    v
}
/// number of expressions of D(n) given D(n-1), and the idx-th of them without materialising
fn level_count(prev: &[Expr]) -> u64 {
    let n = prev.len() as u64;
    let o = prev.iter().filter(|e| e.is_opt()).count() as u64;
    NSINKS as u64 + NUNARY as u64 * n + n * n + o * n
}
fn level_nth(prev: &[Expr], opts: &[usize], idx: u64) -> Expr {
    let n = prev.len() as u64;
    let mut i = idx;
    if i < NSINKS as u64 {
        return Expr::Sink(i as usize);
    }
    i -= NSINKS as u64;
    if i < NUNARY as u64 * n {
        return Expr::unary((i / n) as usize, prev[(i % n) as usize].clone());
    }
    i -= NUNARY as u64 * n;
    if i < n * n {
        return Expr::And(Box::new(prev[(i / n) as usize].clone()), Box::new(prev[(i % n) as usize].clone()));
    }
    i -= n * n;
    assert!(i < opts.len() as u64 * n, "HARNESS: expression index out of range");
    Expr::OrElse(Box::new(prev[opts[(i / n) as usize]].clone()), Box::new(prev[(i % n) as usize].clone()))
}

#[derive(Default)]
struct RouteAcc {
    cells: u64,
    to_sinks: [u64; NSINKS + 1],
    unselected_asked: u64,
    end_to_end: u64,
    direct: u64,
    failing: u64,
    failing_err: u64,
    short: u64,
}
impl RouteAcc {
    fn flush(&self, out: &mut Out) {
        out.evals += self.cells;
        out.count("route_cells", self.cells);
        for (i, n) in self.to_sinks.iter().enumerate() {
            out.count(&format!("route_cells_to_{i}_sinks"), *n);
        }
        out.count("route_unselected_sink_asked_for_writer", self.unselected_asked);
        out.count("route_expressions_end_to_end", self.end_to_end);
        out.count("route_expressions_direct", self.direct);
        out.count("route_cells_with_a_failing_sink", self.failing);
        out.count("route_cells_with_short_write_sinks", self.short);
        out.count("route_cells_whose_write_reported_the_sink_error", self.failing_err);
    }
}

/// Judge the calls recorded by the sinks for one (expression, level, target) cell.
/// `record`: the exact bytes every selected sink must have received in ONE write (None = the
/// check only demands that all received buffers are identical whole records carrying `id`).
#[allow(clippy::too_many_arguments)]
fn judge_cell(
    e: &Expr,
    lvl: usize,
    tgt: usize,
    sinks: &[RecSink],
    record: Option<&[u8]>,
    id: &str,
    via: &str,
    sig: u64,
    acc: &mut RouteAcc,
    out: &mut Out,
) -> bool {
    let mut want = [0u32; NSINKS];
    denote(e, lvl, tgt, &mut want);
    let mut ok = true;
    let mut obs = [(0u32, 0u32); NSINKS];
    let mut first: Option<Vec<u8>> = None;
    let mut problem = String::new();
    for (si, s) in sinks.iter().enumerate() {
        let recs = s.take();
        let mut makes = 0u32;
        let mut writes = 0u32;
        let mut open: Vec<u64> = vec![];
        for r in &recs {
            match &r.kind {
                RecKind::Make(Some((l, t))) => {
                    makes += 1;
                    open.push(r.w);
                    if *l != lvl || t != RTARGETS[tgt] {
                        ok = false;
                        problem = format!("sink S{si}: make_writer_for got level={} target={t}", LEVEL_NAMES[*l]);
                    }
                }
                RecKind::Make(None) => {
                    ok = false;
                    problem = format!("sink S{si}: make_writer() called without metadata");
                }
                RecKind::Write(b) => {
                    writes += 1;
                    if !open.contains(&r.w) {
                        ok = false;
                        problem = format!("sink S{si}: write on a writer that was not made for this record");
                    }
                    open.retain(|w| *w != r.w);
                    let whole = b.ends_with(b"\n") && find_sub(b, id.as_bytes()).is_some() && record.map(|x| x == &b[..]).unwrap_or(true);
                    if !whole {
                        ok = false;
                        problem = format!("sink S{si}: received a buffer that is not the whole record");
                    }
                    match &first {
                        None => first = Some(b.clone()),
                        Some(f) if f != b => {
                            ok = false;
                            problem = format!("sink S{si}: received a different buffer than another selected sink");
                        }
                        _ => {}
                    }
                }
                RecKind::Flush => {}
            }
        }
        if writes != want[si] {
            ok = false;
            problem = format!("sink S{si} received the record {writes} time(s), the expression denotes {}", want[si]);
        } else if want[si] > 0 && makes != want[si] {
            ok = false;
            problem = format!("sink S{si}: {makes} make_writer_for calls for {} deliveries", want[si]);
        }
        if makes > 0 && want[si] == 0 {
            acc.unselected_asked += 1;
        }
        obs[si] = (makes, writes);
    }
    acc.cells += 1;
    acc.to_sinks[want.iter().filter(|c| **c > 0).count()] += 1;
    if !matches!(e, Expr::Sink(_)) && record.is_none() {
        out.distinct(sig);
    }
    if !ok {
        let observed: Vec<JValue> = obs.iter().enumerate().map(|(si, (m, w))| json!({"sink": format!("S{si}"), "make_writer_for_calls": m, "writes": w})).collect();
        out.violation(
            format!("writer expression routes a record differently from its denotation: {problem}"),
            json!({"part": "route", "via": via, "expression": e.show(), "depth": e.depth(), "event_level": LEVEL_NAMES[lvl], "event_target": RTARGETS[tgt],
                   "denotation (deliveries per sink)": want.to_vec(), "observed": observed,
                   "semantics": "max(L): level<=L else none; min(L): level>=L else none; filter(p): p(meta) else none; and: both; or_else(a,b): b iff a's outermost condition fails"}),
        );
    }
    ok
}

/// Route through the REAL fmt subscriber: one subscriber per expression, 15 events.
fn route_end_to_end(e: &Expr, cfgs: &[Cfg], n: u64, sig: u64, acc: &mut RouteAcc, out: &mut Out) -> bool {
    let sinks: Vec<RecSink> = (0..NSINKS).map(RecSink::new).collect();
    let cfg = cfgs[(n % cfgs.len() as u64) as usize];
    // every other expression is handed over behind the type-erasing BoxMakeWriter
    let node = if n % 2 == 1 { Node::Boxed(tracing_subscriber::fmt::writer::BoxMakeWriter::new(build_node(e, &sinks))) } else { build_node(e, &sinks) };
    let d = build_dispatch(&cfg, node);
    let _g = tracing::dispatch::set_default(&d);
    set_opctx(0, 0);
    let mut ok = true;
    for lvl in 1..=5 {
        for tgt in 0..RTARGETS.len() {
            let id = format!("#E0x{}#", lvl * 10 + tgt);
            let fields = vec![("message".to_string(), Val::Disp(format!("route {id}"))), ("n".to_string(), Val::U64(n))];
            let names: Vec<String> = fields.iter().map(|(k, _)| k.clone()).collect();
            let meta = dyn_meta(false, "event c13", RTARGETS[tgt], lvl, false, None, &names);
            // failing sinks (record the write, then report an I/O error): same denotation
            let mask = (n.wrapping_add((lvl * 3 + tgt) as u64) % 4) as usize;
            for (si, s) in sinks.iter().enumerate() {
                s.set_fail(mask >> si & 1 == 1);
            }
            if mask != 0 {
                acc.failing += 1;
            }
            // short-write sinks: `write` takes 7 bytes at most, `write_all` the whole buffer; a
            // record handed over in a single write (write_all) still arrives whole
            let short = n.wrapping_add((lvl + tgt) as u64) % 3 == 0;
            for s in sinks.iter() {
                s.set_short(if short { 7 } else { 0 });
            }
            if short {
                acc.short += 1;
            }
            let r = run::catch(|| with_fields(meta, &fields, |vs| Event::dispatch(meta, vs)));
            for s in sinks.iter() {
                s.set_fail(false);
                s.set_short(0);
            }
            if let Err(p) = r {
                out.violation("panic while routing an event", json!({"expression": e.show(), "panic": p}));
                return false;
            }
            let cell = sig.wrapping_mul(31).wrapping_add((lvl * 3 + tgt) as u64);
            ok &= judge_cell(e, lvl, tgt, &sinks, None, &id, "fmt::Subscriber::on_event", cell, acc, out);
            if !ok {
                return false;
            }
        }
    }
    acc.end_to_end += 1;
    ok
}

/// Route by calling the expression's `make_writer_for` + `write_all` directly (what
/// `on_event` does with a finished record); used for the complete depth-3 table.
fn route_direct(e: &Expr, sinks: &[RecSink], metas: &[[&'static Metadata<'static>; 3]; 5], sig: u64, acc: &mut RouteAcc, out: &mut Out) -> bool {
    let node = if sig % 2 == 1 { Node::Boxed(tracing_subscriber::fmt::writer::BoxMakeWriter::new(build_node(e, sinks))) } else { build_node(e, sinks) };
    for lvl in 1..=5usize {
        for tgt in 0..RTARGETS.len() {
            let rec = b"direct #E0x0# record\n";
            // failing sinks: a sink that records the write and then reports an I/O error. The
            // denotation is unchanged (`and`: "both writers will still be written to before the
            // error is returned"; the other combinators only decide at make_writer time).
            let mask = (sig.wrapping_add((lvl * 3 + tgt) as u64) % 4) as usize;
            for (si, s) in sinks.iter().enumerate() {
                s.set_fail(mask >> si & 1 == 1);
                s.set_short(if sig.wrapping_add((lvl + tgt) as u64) % 3 == 0 { 7 } else { 0 });
            }
            let res = {
                let mut w = node.make_writer_for(metas[lvl - 1][tgt]);
                io::Write::write_all(&mut w, rec)
            };
            for s in sinks.iter() {
                s.set_fail(false);
                s.set_short(0);
            }
            if sig.wrapping_add((lvl + tgt) as u64) % 3 == 0 {
                acc.short += 1;
            }
            if mask != 0 {
                acc.failing += 1;
                if res.is_err() {
                    acc.failing_err += 1;
                }
            }
            let cell = sig.wrapping_mul(31).wrapping_add((lvl * 3 + tgt) as u64);
            if !judge_cell(e, lvl, tgt, sinks, Some(rec), "#E0x0#", "make_writer_for + write_all", cell, acc, out) {
                return false;
            }
        }
    }
    if acc.direct < 20_000 {
        // evidence only: the first 20 000 expressions of each shard are entered as distinct cases
        out.distinct(sig);
    }
    acc.direct += 1;
    true
}
