//! C18, direction tracing -> log (DESIGN.md 5/C18).  `tracing` is compiled with feature
//! "log" here.  One child process = one history:
//!
//!   install a recording `log::Log` (max level Trace), never a collector first;
//!   run a generated program of events and span lifecycle steps (new, record, enter, exit,
//!   close) through the real macros with generated field values;
//!   at a generated step a collector is installed (scoped, global, scoped on another thread,
//!   or installed-and-removed at once); the program continues.
//!
//! Oracle (written from the crate documentation, `tracing/src/lib.rs` "Emitting `log`
//! Records"): while no collector has ever been installed every step yields exactly one log
//! record — an event at its own level and target, its text containing the message and every
//! `field=value`; a new span at the span's level under the span's target if it has field
//! values, under "tracing::span" if it has none; enter/exit at Trace under
//! "tracing::span::active"; the drop of the handle at Trace under "tracing::span".  After the
//! first installation no step yields any record (also not after the scoped guard is gone).
//! Where the documentation is silent (level/target of `Span::record`, target of a span whose
//! fields are all `Empty`, how a value is rendered) every reasonable reading is accepted.

use std::sync::atomic::{AtomicU64, Ordering};
use std::sync::Mutex;
use tracing::dispatch::{DefaultGuard, Dispatch};
use tracing::{
    debug, debug_span, error, error_span, event, field, info, info_span, span, trace, trace_span, warn,
    warn_span, Level, Span,
};
use vlib::c18gen::ustr;
use vlib::run;
use vlib::{json, Args, Mode, Out, Rng, Value};

// ---------------------------------------------------------------- recording logger

#[derive(Clone, Debug)]
struct LogRec {
    level: usize,
    target: String,
    text: String,
    has_file: bool,
    has_line: bool,
    has_module: bool,
}
impl LogRec {
    fn js(&self) -> Value {
        json!({"level": self.level, "target": self.target, "text": self.text})
    }
}

struct RecLogger {
    recs: Mutex<Vec<LogRec>>,
    enabled_q: AtomicU64,
}
static LOGGER: RecLogger = RecLogger { recs: Mutex::new(Vec::new()), enabled_q: AtomicU64::new(0) };

fn log_rank(l: log::Level) -> usize {
    match l {
        log::Level::Error => 1,
        log::Level::Warn => 2,
        log::Level::Info => 3,
        log::Level::Debug => 4,
        log::Level::Trace => 5,
    }
}

impl log::Log for RecLogger {
    fn enabled(&self, _: &log::Metadata<'_>) -> bool {
        self.enabled_q.fetch_add(1, Ordering::Relaxed);
        true
    }
    fn log(&self, r: &log::Record<'_>) {
        let rec = LogRec {
            level: log_rank(r.level()),
            target: r.target().to_string(),
            text: r.args().to_string(),
            has_file: r.file().is_some(),
            has_line: r.line().is_some(),
            has_module: r.module_path().is_some(),
        };
        self.recs.lock().unwrap().push(rec);
    }
    fn flush(&self) {}
}
fn mark() -> usize {
    LOGGER.recs.lock().unwrap().len()
}
fn since(n: usize) -> Vec<LogRec> {
    LOGGER.recs.lock().unwrap()[n..].to_vec()
}

// ---------------------------------------------------------------- the collector installed later

struct Col {
    accept_max: usize,
    events: AtomicU64,
    spans: AtomicU64,
    next: AtomicU64,
}
impl Col {
    fn new(accept_max: usize) -> Self {
        Col { accept_max, events: AtomicU64::new(0), spans: AtomicU64::new(0), next: AtomicU64::new(1) }
    }
}
fn trace_rank(l: &Level) -> usize {
    if *l == Level::ERROR {
        1
    } else if *l == Level::WARN {
        2
    } else if *l == Level::INFO {
        3
    } else if *l == Level::DEBUG {
        4
    } else {
        5
    }
}
impl tracing::Collect for Col {
    fn enabled(&self, m: &tracing::Metadata<'_>) -> bool {
        trace_rank(m.level()) <= self.accept_max
    }
    fn new_span(&self, _: &tracing::span::Attributes<'_>) -> tracing::span::Id {
        self.spans.fetch_add(1, Ordering::Relaxed);
        tracing::span::Id::from_u64(self.next.fetch_add(1, Ordering::Relaxed))
    }
    fn record(&self, _: &tracing::span::Id, _: &tracing::span::Record<'_>) {}
    fn record_follows_from(&self, _: &tracing::span::Id, _: &tracing::span::Id) {}
    fn event(&self, _: &tracing::Event<'_>) {
        self.events.fetch_add(1, Ordering::Relaxed);
    }
    fn enter(&self, _: &tracing::span::Id) {}
    fn exit(&self, _: &tracing::span::Id) {}
    fn current_span(&self) -> tracing_core::span::Current {
        tracing_core::span::Current::unknown()
    }
}

// ---------------------------------------------------------------- generated values, expectations

#[derive(Clone, Debug)]
struct Vals {
    i: i64,
    u: u64,
    b: bool,
    s: String,
    d: String,
    f: f64,
    m: String,
    v: Vec<u32>,
    o: Option<String>,
}
impl Vals {
    fn gen(r: &mut Rng) -> Vals {
        let i = match r.below(6) {
            0 => i64::MIN,
            1 => i64::MAX,
            2 => 0,
            3 => -1,
            _ => r.next_u64() as i64 >> r.below(60),
        };
        let u = match r.below(5) {
            0 => u64::MAX,
            1 => 0,
            _ => r.next_u64() >> r.below(64),
        };
        let f = match r.below(8) {
            0 => f64::NAN,
            1 => f64::INFINITY,
            2 => f64::NEG_INFINITY,
            3 => -0.0,
            4 => 1e300,
            5 => 5e-324,
            _ => (r.f64() - 0.5) * 10f64.powi(r.range(-5, 12) as i32),
        };
        Vals {
            i,
            u,
            b: r.bool(),
            s: ustr(r, 12),
            d: ustr(r, 10),
            f,
            m: ustr(r, 24),
            v: (0..r.usize(4)).map(|_| r.next_u32() >> r.below(32)).collect(),
            o: if r.bool() { Some(ustr(r, 6)) } else { None },
        }
    }
    fn js(&self) -> Value {
        json!({"i": self.i, "u": self.u, "b": self.b, "s": self.s, "d": self.d, "f": format!("{:?}", self.f),
               "m": self.m, "v": self.v, "o": self.o})
    }
}

/// one declared field: its name and the renderings of its value that are accepted after
/// `name=` (empty = declared `Empty`, nothing to be found in the text)
#[derive(Clone, Debug)]
struct Fx {
    name: &'static str,
    ok: Vec<String>,
}
fn fi(name: &'static str, x: impl std::fmt::Display) -> Fx {
    Fx { name, ok: vec![x.to_string()] }
}
fn fs(name: &'static str, s: &str) -> Fx {
    Fx { name, ok: vec![s.to_string(), format!("{:?}", s)] }
}
fn ff(name: &'static str, f: f64) -> Fx {
    Fx { name, ok: vec![format!("{}", f), format!("{:?}", f)] }
}
fn fd(name: &'static str, x: &impl std::fmt::Debug) -> Fx {
    Fx { name, ok: vec![format!("{:?}", x)] }
}
fn fe(name: &'static str) -> Fx {
    Fx { name, ok: vec![] }
}

/// what the documentation lets us expect of one callsite
#[derive(Clone, Debug)]
struct Cs {
    id: String,
    level: usize,
    target: &'static str,
    /// event: the message (None = event without message)
    message: Option<String>,
    fields: Vec<Fx>,
}
const HERE: &str = "c18log";

const N_EVENTS: usize = 16;
fn emit_event(k: usize, v: &Vals) -> Cs {
    let id = format!("ev{k}");
    match k {
        0 => {
            info!("plain {}", v.m);
            Cs { id, level: 3, target: HERE, message: Some(format!("plain {}", v.m)), fields: vec![] }
        }
        1 => {
            error!(target: "app::db", code = v.i, "failed: {}", v.s);
            Cs { id, level: 1, target: "app::db", message: Some(format!("failed: {}", v.s)), fields: vec![fi("code", v.i)] }
        }
        2 => {
            warn!(answer = v.u, ok = v.b);
            Cs { id, level: 2, target: HERE, message: None, fields: vec![fi("answer", v.u), fi("ok", v.b)] }
        }
        3 => {
            debug!(target: "net", name = v.s.as_str(), "dbg");
            Cs { id, level: 4, target: "net", message: Some("dbg".into()), fields: vec![fs("name", &v.s)] }
        }
        4 => {
            trace!(user.id = v.u, user.name = %v.d, "trace msg {}", v.i);
            Cs {
                id,
                level: 5,
                target: HERE,
                message: Some(format!("trace msg {}", v.i)),
                fields: vec![fi("user.id", v.u), fs("user.name", &v.d)],
            }
        }
        5 => {
            event!(Level::DEBUG, ?v.v, "vec");
            Cs { id, level: 4, target: HERE, message: Some("vec".into()), fields: vec![fd("v.v", &v.v)] }
        }
        6 => {
            let local = v.i;
            event!(target: "weird target, with spaces", Level::INFO, local, ratio = v.f);
            Cs {
                id,
                level: 3,
                target: "weird target, with spaces",
                message: None,
                fields: vec![fi("local", local), ff("ratio", v.f)],
            }
        }
        7 => {
            event!(Level::WARN, "quoted name" = v.i, "type" = v.s.as_str(), "lit names");
            Cs {
                id,
                level: 2,
                target: HERE,
                message: Some("lit names".into()),
                fields: vec![fi("quoted name", v.i), fs("type", &v.s)],
            }
        }
        8 => {
            event!(Level::ERROR, opt = ?v.o, "{}", v.m);
            Cs { id, level: 1, target: HERE, message: Some(v.m.clone()), fields: vec![fd("opt", &v.o)] }
        }
        9 => {
            trace!(target: "c18log::deep", "{}{}", v.m, v.s);
            Cs { id, level: 5, target: "c18log::deep", message: Some(format!("{}{}", v.m, v.s)), fields: vec![] }
        }
        10 => deep::er::event(v),
        11 => {
            event!(name: "custom name", Level::DEBUG, k = v.b, "named");
            Cs { id, level: 4, target: HERE, message: Some("named".into()), fields: vec![fi("k", v.b)] }
        }
        12 => {
            event!(Level::INFO, e = field::Empty, z = v.u, "with empty");
            Cs { id, level: 3, target: HERE, message: Some("with empty".into()), fields: vec![fe("e"), fi("z", v.u)] }
        }
        13 => {
            debug!(message = v.s.as_str(), k = v.i);
            Cs { id, level: 4, target: HERE, message: Some(v.s.clone()), fields: vec![fi("k", v.i)] }
        }
        14 => {
            event!(parent: None, Level::INFO, p = v.i, "rooted {:?}", v.d);
            Cs { id, level: 3, target: HERE, message: Some(format!("rooted {:?}", v.d)), fields: vec![fi("p", v.i)] }
        }
        _ => {
            let shown = &v.d;
            warn!(target: "app", nan = f64::NAN, f = v.f, %shown, neg = -v.f, "floats");
            Cs {
                id,
                level: 2,
                target: "app",
                message: Some("floats".into()),
                fields: vec![ff("nan", f64::NAN), ff("f", v.f), fs("shown", shown), ff("neg", -v.f)],
            }
        }
    }
}

const N_SPANS: usize = 11;
fn mk_span(k: usize, v: &Vals) -> (Span, Cs) {
    let id = format!("sp{k}");
    match k {
        0 => (info_span!("s_plain"), Cs { id, level: 3, target: HERE, message: None, fields: vec![] }),
        1 => (
            error_span!(target: "app::db", "s_err", code = v.i),
            Cs { id, level: 1, target: "app::db", message: None, fields: vec![fi("code", v.i)] },
        ),
        2 => (
            debug_span!("s_dbg", who = v.s.as_str(), n = v.u, later = field::Empty),
            Cs { id, level: 4, target: HERE, message: None, fields: vec![fs("who", &v.s), fi("n", v.u), fe("later")] },
        ),
        3 => (
            trace_span!("s_trace", a.b = %v.d, ok = v.b),
            Cs { id, level: 5, target: HERE, message: None, fields: vec![fs("a.b", &v.d), fi("ok", v.b)] },
        ),
        4 => (
            warn_span!(target: "net", "s_empty_only", e1 = field::Empty, e2 = field::Empty),
            Cs { id, level: 2, target: "net", message: None, fields: vec![fe("e1"), fe("e2")] },
        ),
        5 => (
            span!(Level::INFO, "s_dbgfield", ?v.v, ratio = v.f),
            Cs { id, level: 3, target: HERE, message: None, fields: vec![fd("v.v", &v.v), ff("ratio", v.f)] },
        ),
        6 => (
            span!(target: "c18log::deep", Level::TRACE, "s_lit", "lit name" = v.i),
            Cs { id, level: 5, target: "c18log::deep", message: None, fields: vec![fi("lit name", v.i)] },
        ),
        7 => (
            span!(Level::DEBUG, "名前 with space", x = v.i),
            Cs { id, level: 4, target: HERE, message: None, fields: vec![fi("x", v.i)] },
        ),
        8 => (
            span!(parent: None, Level::WARN, "s_root", r = v.u),
            Cs { id, level: 2, target: HERE, message: None, fields: vec![fi("r", v.u)] },
        ),
        9 => deep::er::span(v),
        _ => (
            error_span!("s_two_empty_one_set", a = field::Empty, b = v.s.as_str(), c = field::Empty),
            Cs { id, level: 1, target: HERE, message: None, fields: vec![fe("a"), fs("b", &v.s), fe("c")] },
        ),
    }
}

mod deep {
    pub mod er {
        use super::super::{fi, Cs, Vals};
        pub fn event(v: &Vals) -> Cs {
            tracing::info!(x = v.i, "deep");
            Cs { id: "ev10".into(), level: 3, target: "c18log::deep::er", message: Some("deep".into()), fields: vec![fi("x", v.i)] }
        }
        pub fn span(_: &Vals) -> (tracing::Span, Cs) {
            (
                tracing::error_span!("s_deep"),
                Cs { id: "sp9".into(), level: 1, target: "c18log::deep::er", message: None, fields: vec![] },
            )
        }
    }
}

/// `Span::record` on declared field number `fidx` of span callsite `k`; returns the expectation.
fn do_record(span: &Span, cs: &Cs, fidx: usize, v: &Vals, style: u64) -> Fx {
    let name = cs.fields[fidx].name;
    match style % 4 {
        0 => {
            span.record(name, v.i);
            fi(name, v.i)
        }
        1 => {
            span.record(name, v.s.as_str());
            fs(name, &v.s)
        }
        2 => {
            span.record(name, field::display(&v.d));
            fs(name, &v.d)
        }
        _ => {
            span.record(name, field::debug(&v.o));
            fd(name, &v.o)
        }
    }
}

// ---------------------------------------------------------------- expectations per step

#[derive(Clone, Debug)]
struct Exp {
    levels: Vec<usize>,
    targets: Vec<String>,
    /// each entry: the text must contain at least one of the alternatives
    contains: Vec<Vec<String>>,
}
fn field_needles(fields: &[Fx]) -> Vec<Vec<String>> {
    fields
        .iter()
        .filter(|f| !f.ok.is_empty())
        .map(|f| f.ok.iter().map(|r| format!("{}={}", f.name, r)).collect())
        .collect()
}
fn exp_event(cs: &Cs) -> Exp {
    let mut contains = vec![];
    if let Some(m) = &cs.message {
        contains.push(vec![m.clone(), format!("{:?}", m)]);
    }
    contains.extend(field_needles(&cs.fields));
    Exp { levels: vec![cs.level], targets: vec![cs.target.to_string()], contains }
}
const LIFECYCLE: &str = "tracing::span";
const ACTIVE: &str = "tracing::span::active";
fn exp_new(cs: &Cs) -> Exp {
    let targets = if cs.fields.is_empty() {
        vec![LIFECYCLE.to_string()]
    } else if cs.fields.iter().all(|f| f.ok.is_empty()) {
        // fields declared but none has a value: the documentation does not say which
        vec![cs.target.to_string(), LIFECYCLE.to_string()]
    } else {
        vec![cs.target.to_string()]
    };
    // a span without field values is announced under the lifecycle target; the documentation
    // says lifecycle records are "always emitted at the Trace level" but speaks only of
    // enter/exit/close there, so for such a span both the span's level and Trace are accepted
    let levels = if cs.fields.iter().all(|f| f.ok.is_empty()) { vec![cs.level, 5] } else { vec![cs.level] };
    Exp { levels, targets, contains: field_needles(&cs.fields) }
}
fn exp_record(cs: &Cs, fx: &Fx) -> Exp {
    Exp {
        levels: vec![cs.level, 5],
        targets: vec![cs.target.to_string(), LIFECYCLE.to_string()],
        contains: field_needles(std::slice::from_ref(fx)),
    }
}
fn exp_active() -> Exp {
    Exp { levels: vec![5], targets: vec![ACTIVE.to_string()], contains: vec![] }
}
fn exp_close() -> Exp {
    Exp { levels: vec![5], targets: vec![LIFECYCLE.to_string()], contains: vec![] }
}

// ---------------------------------------------------------------- the history

#[derive(Clone, Copy, Debug, PartialEq)]
enum Install {
    Never,
    Scoped,
    Global,
    OtherThread,
    Momentary,
}

struct World {
    rng: Rng,
    out: Out,
    budget: usize,
    ticks: usize,
    install: Install,
    install_at: usize,
    drop_at: usize,
    accept_max: usize,
    installed: bool,
    guard_dropped: bool,
    guard: Option<DefaultGuard>,
    /// a Dispatch that exists but is never installed (only created while nothing is installed)
    idle_dispatch: Option<Dispatch>,
    trace: Vec<Value>,
    other: Option<std::sync::mpsc::Sender<()>>,
    other_h: Option<std::thread::JoinHandle<()>>,
}

impl World {
    fn phase(&self) -> &'static str {
        if !self.installed {
            "pre"
        } else if self.guard_dropped {
            "post-removed"
        } else {
            "post"
        }
    }
    /// called before every step; performs the scheduled installation / removal
    fn tick(&mut self) {
        if self.ticks == self.install_at && !self.installed {
            let col = Col::new(self.accept_max);
            match self.install {
                Install::Never => {}
                Install::Scoped => {
                    self.guard = Some(tracing::collect::set_default(col));
                    self.installed = true;
                }
                Install::Global => {
                    tracing::collect::set_global_default(col).expect("HARNESS: set_global_default failed");
                    self.installed = true;
                }
                Install::Momentary => {
                    tracing::collect::with_default(col, || ());
                    self.installed = true;
                    self.guard_dropped = true;
                }
                Install::OtherThread => {
                    let (tx, rx) = std::sync::mpsc::channel::<()>();
                    let (rtx, rrx) = std::sync::mpsc::channel::<()>();
                    self.other_h = Some(std::thread::spawn(move || {
                        let _g = tracing::collect::set_default(col);
                        let _ = rtx.send(());
                        let _ = rx.recv(); // keep the scope until told (or until the sender is dropped)
                    }));
                    rrx.recv().expect("HARNESS: other thread died");
                    self.other = Some(tx);
                    self.installed = true;
                }
            }
            if self.installed {
                self.trace.push(json!({"install": format!("{:?}", self.install), "collector_accepts_up_to": self.accept_max}));
                self.out.count(&format!("installed_{:?}", self.install), 1);
            }
        }
        if self.installed && !self.guard_dropped && self.ticks >= self.drop_at {
            match self.install {
                Install::Scoped => {
                    self.guard = None;
                    self.guard_dropped = true;
                    self.trace.push(json!("scoped guard dropped"));
                }
                Install::OtherThread => {
                    self.other = None;
                    if let Some(h) = self.other_h.take() {
                        let _ = h.join();
                    }
                    self.guard_dropped = true;
                    self.trace.push(json!("other thread's scope ended"));
                }
                _ => {}
            }
        }
        self.ticks += 1;
    }

    /// judge the records produced since `n0` by one step
    fn judge(&mut self, kind: &str, cs: &Cs, vals: &Vals, n0: usize, exp_pre: Exp) {
        let got = since(n0);
        let phase = self.phase();
        self.out.evals += 1;
        self.out.count(&format!("step_{kind}_{phase}"), 1);
        self.out.count("log_records", got.len() as u64);
        self.out.distinct_str(&format!(
            "B|{}|{kind}|{phase}|{:?}|{}",
            cs.id,
            self.install,
            self.idle_dispatch.is_some()
        ));
        let step = json!({"step": kind, "callsite": cs.id, "phase": phase, "values": vals.js()});
        self.trace.push(step.clone());
        for g in &got {
            self.out.set("log_targets", g.target.clone());
            if g.has_file && g.has_line && g.has_module {
                self.out.count("records_with_file_line_module", 1);
            }
        }
        let mut problem: Option<String> = None;
        if self.installed {
            if !got.is_empty() {
                problem = Some(format!(
                    "{} log record(s) emitted by a span/event step after a collector had been installed",
                    got.len()
                ));
            }
        } else if got.len() != 1 {
            problem = Some(format!("step produced {} log records, expected exactly 1", got.len()));
        } else {
            let g = &got[0];
            if !exp_pre.levels.contains(&g.level) {
                problem = Some(format!("log record has level rank {}, documented: {:?}", g.level, exp_pre.levels));
            } else if !exp_pre.targets.contains(&g.target) {
                problem = Some(format!("log record has target {:?}, documented: {:?}", g.target, exp_pre.targets));
            } else {
                for alts in &exp_pre.contains {
                    if !alts.iter().any(|a| g.text.contains(a.as_str())) {
                        problem = Some(format!("log text {:?} contains none of {:?}", g.text, alts));
                        break;
                    }
                }
            }
        }
        if let Some(p) = problem {
            let hist: Vec<Value> = self.trace.iter().rev().take(40).rev().cloned().collect();
            self.out.violation(
                format!("tracing->log [{kind}, {phase}]: {p}"),
                json!({
                    "step": step,
                    "expected_if_no_collector_ever_installed": {"levels": exp_pre.levels, "targets": exp_pre.targets, "text_contains_one_of_each": exp_pre.contains},
                    "collector_installed_before_step": self.installed,
                    "observed_records": got.iter().map(|g| g.js()).collect::<Vec<_>>(),
                    "install_kind": format!("{:?}", self.install),
                    "idle_uninstalled_dispatch_alive": self.idle_dispatch.is_some(),
                    "history_tail": hist,
                }),
            );
        } else if self.out.samples.len() < 3 && !got.is_empty() {
            self.out.sample(json!({"step": step, "record": got[0].js()}));
        }
    }
}

fn event_step(w: &mut World) {
    let k = w.rng.usize(N_EVENTS);
    let vals = Vals::gen(&mut w.rng);
    let other_thread = w.rng.chance(1, 8);
    w.tick();
    let n0 = mark();
    let cs = if other_thread {
        let v2 = vals.clone();
        w.out.count("events_on_second_thread", 1);
        std::thread::spawn(move || emit_event(k, &v2)).join().expect("HARNESS: emitter thread panicked")
    } else {
        emit_event(k, &vals)
    };
    let e = exp_event(&cs);
    w.judge("event", &cs, &vals, n0, e);
}

fn records(w: &mut World, span: &Span, cs: &Cs) {
    if cs.fields.is_empty() {
        return;
    }
    for _ in 0..w.rng.usize(3) {
        let fidx = w.rng.usize(cs.fields.len());
        let vals = Vals::gen(&mut w.rng);
        let style = w.rng.next_u64();
        w.tick();
        let n0 = mark();
        let fx = do_record(span, cs, fidx, &vals, style);
        let e = exp_record(cs, &fx);
        w.judge("record", cs, &vals, n0, e);
    }
}

fn span_block(w: &mut World, depth: usize) {
    let k = w.rng.usize(N_SPANS);
    let vals = Vals::gen(&mut w.rng);
    w.tick();
    let n0 = mark();
    let (span, cs) = mk_span(k, &vals);
    let e = exp_new(&cs);
    w.judge("new", &cs, &vals, n0, e);
    records(w, &span, &cs);

    // handles are never cloned in a history: every handle's drop is a judged step
    let mut span = Some(span);
    let rounds = w.rng.weighted(&[2, 6, 2]); // 0, 1 or 2 enter/exit rounds
    for _ in 0..rounds {
        let s = span.take().expect("HARNESS: span slot empty");
        match w.rng.usize(3) {
            0 => {
                w.tick();
                let n0 = mark();
                let g = s.enter();
                w.judge("enter", &cs, &vals, n0, exp_active());
                scope(w, depth + 1);
                w.tick();
                let n0 = mark();
                drop(g);
                w.judge("exit", &cs, &vals, n0, exp_active());
                span = Some(s);
            }
            1 => {
                w.tick();
                let n0 = mark();
                let n1 = s.in_scope(|| {
                    w.judge("enter", &cs, &vals, n0, exp_active());
                    scope(w, depth + 1);
                    w.tick();
                    mark()
                });
                w.judge("exit", &cs, &vals, n1, exp_active());
                span = Some(s);
            }
            _ => {
                w.tick();
                let n0 = mark();
                let es = s.entered();
                w.judge("enter", &cs, &vals, n0, exp_active());
                scope(w, depth + 1);
                w.tick();
                let n0 = mark();
                let s = es.exit();
                w.judge("exit", &cs, &vals, n0, exp_active());
                span = Some(s);
            }
        }
        if w.rng.chance(1, 3) {
            let sp = span.take().unwrap();
            records(w, &sp, &cs);
            span = Some(sp);
        }
    }
    let s = span.take().unwrap();
    w.tick();
    let n0 = mark();
    drop(s);
    w.judge("close", &cs, &vals, n0, exp_close());
}

fn scope(w: &mut World, depth: usize) {
    while w.budget > 0 {
        w.budget -= 1;
        match w.rng.weighted(&[40, 38, 10, 12]) {
            0 => event_step(w),
            1 => {
                if depth < 3 {
                    span_block(w, depth)
                } else {
                    event_step(w)
                }
            }
            2 => {
                if depth > 0 {
                    return;
                }
            }
            _ => {
                // a Dispatch that is created but never installed does not count as "a
                // collector has been set": records must keep coming
                if !w.installed && w.idle_dispatch.is_none() && w.rng.chance(1, 3) {
                    let m = *w.rng.pick(&[0usize, 2, 3, 5, 5]);
                    w.idle_dispatch = Some(Dispatch::new(Col::new(m)));
                    w.trace.push(json!({"created_but_not_installed_dispatch_accepting_up_to": m}));
                    w.out.count("idle_dispatch_created", 1);
                }
            }
        }
    }
}

fn child(args: &Args) {
    log::set_logger(&LOGGER).expect("HARNESS: set_logger");
    log::set_max_level(log::LevelFilter::Trace);
    let mut rng = Rng::derive(args.seed, args.shard, 0xC18B);
    let budget = 10 + rng.usize(30);
    let install = match rng.weighted(&[1, 4, 3, 2, 2]) {
        0 => Install::Never,
        1 => Install::Scoped,
        2 => Install::Global,
        3 => Install::OtherThread,
        _ => Install::Momentary,
    };
    // about 1.5 ticks per budget unit; install somewhere inside, sometimes at the very start
    let install_at = if rng.chance(1, 12) { 0 } else { rng.usize(budget * 3 / 2 + 1) };
    let drop_at = install_at + 1 + rng.usize(budget);
    let accept_max = *rng.pick(&[0usize, 1, 3, 5, 5, 5]);
    let mut w = World {
        rng,
        out: Out::new(),
        budget,
        ticks: 0,
        install,
        install_at,
        drop_at,
        accept_max,
        installed: false,
        guard_dropped: false,
        guard: None,
        idle_dispatch: None,
        trace: vec![],
        other: None,
        other_h: None,
    };
    if tracing::dispatch::has_been_set() {
        panic!("HARNESS: a collector exists before the history started");
    }
    scope(&mut w, 0);
    w.out.count("histories", 1);
    w.out.count(&format!("history_install_{:?}", w.install), 1);
    w.out.count("logger_enabled_queries", LOGGER.enabled_q.load(Ordering::Relaxed));
    w.guard = None;
    w.other = None;
    if let Some(h) = w.other_h.take() {
        let _ = h.join();
    }
    w.out.emit();
}

fn main() {
    let args = run::parse_args();
    match args.mode.clone() {
        Mode::Child(_) => child(&args),
        _ => {
            eprintln!("HARNESS: c18log is only run as a child of the c18 check");
            std::process::exit(2);
        }
    }
}
