//! C01 in a release build whose only static-level feature is the debug-build one (`max_level_warn`):
//! STATIC_MAX_LEVEL must be TRACE, so the oracle is the uncapped one.
const CAP: usize = 5;
const CAP_BUILD: bool = true;
include!("../../checks/src/c01_body.rs");
