//! Miri layer of C19 (see Cargo.toml).  Prints `C19-MIRI cells=<n> mismatches=<m>`;
//! exit 0 = every cell agrees with the integer-rank reference, exit 3 = a mismatch
//! (each printed as a `C19-MIRI-MISMATCH` line).  Undefined behaviour is Miri's to report.
include!("../../checks/src/c19_tables.rs");

struct S {
    n: u64,
    bad: u64,
}
impl Sink for S {
    fn cell(&mut self, table: &'static str, op: &'static str, a: i64, b: i64, c: i64, expected: i64, observed: i64) {
        self.n += 1;
        if expected != observed {
            self.bad += 1;
            eprintln!(
                "C19-MIRI-MISMATCH table={table} op={op} a={a} b={b} c={c} expected={} observed={}",
                code_name(expected),
                code_name(observed)
            );
        }
    }
}

fn main() {
    if cfg!(debug_assertions) {
        // wrong profile: the checked `unreachable!` arm would be interpreted instead
        eprintln!("C19-MIRI-CONFIG: built with debug assertions on");
        std::process::exit(4);
    }
    // clamp(lo > hi) panics by contract; keep those panics quiet
    std::panic::set_hook(Box::new(|_| {}));
    let mut s = S { n: 0, bad: 0 };
    // before any dispatcher exists: the initial MAX_LEVEL goes through `current()`
    let f0 = frank(LevelFilter::current());
    s.cell("current", "fresh process is one of the six filters", 7, 0, 0, 1, (f0 != INVALID) as i64);
    current_table(&mut s);
    ops_table(&mut s);
    conv_table(&mut s);
    sort_table(&mut s, false);
    println!("C19-MIRI cells={} mismatches={}", s.n, s.bad);
    std::process::exit(if s.bad > 0 { 3 } else { 0 });
}
