#!/bin/bash
# Warm the Miri builds of the binaries whose quick tier has an interpreter layer, so the first
# quick run does not pay the interpreter build (a bogus argument makes the program exit at once).
ROOT=$(cd "$(dirname "$0")/../.." && pwd)
cd "$ROOT/harness" || exit 0
if [ -z "${VERIF_SKIP_MIRI:-}" ]; then
  for b in c02 c03 c04 c05 c06 c09; do
    CARGO_TARGET_DIR="$ROOT/harness/target/miri" MIRIFLAGS="-Zmiri-disable-isolation" \
      cargo +nightly miri run --offline -q -p checks --bin $b -- --noop >/dev/null 2>&1
    echo "miri build of $b: done"
  done
  (cd "$ROOT/harness/san-c18" && CARGO_TARGET_DIR="$ROOT/harness/target/miri-c18" MIRIFLAGS="-Zmiri-disable-isolation" cargo +nightly miri run --offline -q -- 1 1 >/dev/null 2>&1; echo "miri build of san-c18: done")
fi
exit 0
