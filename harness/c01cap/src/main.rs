//! C01 with a compile-time level cap (INFO): oracle = accept && level <= INFO.
const CAP: usize = 3;
include!("../../checks/src/c01_body.rs");
