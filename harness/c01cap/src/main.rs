//! C01 with a compile-time level cap (INFO): oracle = accept && level <= INFO.
const CAP: usize = 3;
const CAP_BUILD: bool = true;
include!("../../checks/src/c01_body.rs");
