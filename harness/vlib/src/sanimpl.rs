//! Miri / ThreadSanitizer / AddressSanitizer layers (DESIGN.md section 4).
//!
//! The racing / unsafe-reaching child kinds of the check binaries themselves are rebuilt
//! under the tool and re-run with small workloads; the same oracles run inside, so every Miri
//! seed / sanitizer run is one more judged execution.  A tool report in code reached by the
//! workload is a violation; failing to build or run the layer is inconclusive, never a violation.
use crate::run::{self, Args, ChildEnd, ChildSpec, Out, Tier};
use serde_json::{json, Map, Value};
use std::path::PathBuf;
use std::process::Command;

#[derive(Clone, Copy, PartialEq, Debug)]
enum Tool {
    Miri,
    Tsan,
    Asan,
}

struct Layer {
    tool: Tool,
    kind: &'static str,
    extra: &'static [(&'static str, &'static str)],
    quick: u64,
    thorough: u64,
}

fn layers(id: &str) -> (&'static str, Vec<Layer>) {
    use Tool::*;
    match id {
        "C02" => ("c02", vec![
            Layer { tool: Miri, kind: "conc", extra: &[], quick: 6, thorough: 96 },
            Layer { tool: Miri, kind: "raw", extra: &[], quick: 8, thorough: 96 },
            Layer { tool: Tsan, kind: "conc", extra: &[], quick: 0, thorough: 1500 },
            Layer { tool: Tsan, kind: "raw", extra: &[("rounds", "200")], quick: 0, thorough: 600 },
        ]),
        "C03" => ("c03", vec![
            Layer { tool: Miri, kind: "prog", extra: &[("progs", "2")], quick: 6, thorough: 96 },
            Layer { tool: Asan, kind: "prog", extra: &[("progs", "100")], quick: 0, thorough: 48 },
        ]),
        "C04" => ("c04", vec![
            Layer { tool: Miri, kind: "race", extra: &[("scen", "2")], quick: 8, thorough: 128 },
            Layer { tool: Miri, kind: "raw", extra: &[("scen", "3")], quick: 6, thorough: 64 },
            Layer { tool: Tsan, kind: "race", extra: &[("scen", "100")], quick: 0, thorough: 200 },
            Layer { tool: Tsan, kind: "raw", extra: &[("scen", "200")], quick: 0, thorough: 200 },
        ]),
        "C05" => ("c05", vec![
            Layer { tool: Miri, kind: "race", extra: &[("scen", "2")], quick: 6, thorough: 96 },
            Layer { tool: Miri, kind: "hist", extra: &[("hist", "3")], quick: 4, thorough: 48 },
            Layer { tool: Tsan, kind: "race", extra: &[("scen", "100")], quick: 0, thorough: 200 },
            Layer { tool: Asan, kind: "hist", extra: &[("hist", "60")], quick: 0, thorough: 32 },
            Layer { tool: Asan, kind: "race", extra: &[("scen", "60")], quick: 0, thorough: 32 },
        ]),
        // C06 / C07 / C09 / C12: the unsafe code these reach is the `downcast_raw` plumbing of
        // Layered / Filtered / reload / fmt and tracing-error's WithContext; thorough only
        "C06" => ("c06", vec![
            Layer { tool: Miri, kind: "trace", extra: &[("rounds", "2")], quick: 4, thorough: 32 },
            Layer { tool: Miri, kind: "hist", extra: &[("hist", "3")], quick: 0, thorough: 48 },
            Layer { tool: Asan, kind: "trace", extra: &[("rounds", "40")], quick: 0, thorough: 32 },
        ]),
        "C07" => ("c07", vec![
            Layer { tool: Miri, kind: "hist", extra: &[("hist", "1")], quick: 0, thorough: 32 },
        ]),
        "C09" => ("c09", vec![
            Layer { tool: Miri, kind: "mix", extra: &[("probe_only", "1")], quick: 1, thorough: 2 },
            Layer { tool: Miri, kind: "mix", extra: &[("limit", "1")], quick: 0, thorough: 32 },
        ]),
        "C12" => ("c12", vec![
            Layer { tool: Miri, kind: "hist", extra: &[("hist", "1")], quick: 0, thorough: 32 },
            Layer { tool: Tsan, kind: "conc", extra: &[("runs", "3")], quick: 0, thorough: 100 },
        ]),
        "C13" => ("c13", vec![
            Layer { tool: Miri, kind: "all", extra: &[("part", "mini"), ("n", "2")], quick: 0, thorough: 24 },
            // eight named threads format one event each at the same moment (process-wide name width)
            Layer { tool: Miri, kind: "all", extra: &[("part", "names"), ("rounds", "1")], quick: 0, thorough: 8 },
        ]),
                "C15" => ("c15", vec![
            Layer { tool: Tsan, kind: "rand", extra: &[("runs", "6")], quick: 0, thorough: 64 },
        ]),
        _ => ("", vec![]),
    }
}

fn harness_dir() -> PathBuf {
    run::verif_root().join("harness")
}

const TRIPLE: &str = "x86_64-unknown-linux-gnu";

/// Build the sanitizer variant of `bin`; returns the executable path or the error text.
fn build_san(tool: Tool, bin: &str) -> Result<PathBuf, String> {
    let (dir, flags, buildstd) = match tool {
        Tool::Tsan => ("tsan", "-Zsanitizer=thread", true),
        Tool::Asan => ("asan", "-Zsanitizer=address -Cforce-frame-pointers=yes", false),
        Tool::Miri => unreachable!(),
    };
    let target_dir = harness_dir().join("target").join(dir);
    let mut cmd = Command::new("cargo");
    cmd.current_dir(harness_dir())
        .arg("+nightly")
        .arg("build")
        .arg("--offline")
        .arg("--release")
        .args(["--target", TRIPLE, "-p", "checks", "--bin", bin])
        .env("RUSTFLAGS", flags)
        .env("CARGO_TARGET_DIR", &target_dir)
        .env("CARGO_NET_OFFLINE", "true");
    if buildstd {
        cmd.arg("-Zbuild-std");
    }
    let o = cmd.output().map_err(|e| format!("cannot run cargo: {e}"))?;
    if !o.status.success() {
        let e = String::from_utf8_lossy(&o.stderr);
        let t: String = e.lines().filter(|l| l.starts_with("error")).take(5).collect::<Vec<_>>().join(" | ");
        return Err(format!("build of {bin} under {dir} failed: {t}"));
    }
    Ok(target_dir.join(TRIPLE).join("release").join(bin))
}

/// first frame of a report that lies in the repository under test
fn first_repo_frame(block: &str) -> String {
    for l in block.lines() {
        if let Some(p) = l.find("/repo/") {
            let s = &l[p..];
            let end = s.find(|c: char| c.is_whitespace() || c == ')').unwrap_or(s.len());
            // strip the column, keep file:line
            let f = &s[..end];
            let mut parts = f.split(':');
            let file = parts.next().unwrap_or("");
            let line = parts.next().unwrap_or("");
            return format!("{file}:{line}");
        }
    }
    String::new()
}

fn classify(tool: Tool, id: &str, layer: &Layer, ends: &[ChildEnd], out: &mut Out, stats: &mut Map<String, Value>) {
    let name = format!("{:?}", tool).to_lowercase();
    let mut ok = 0u64;
    let mut reports: std::collections::BTreeMap<String, (u64, String)> = Default::default();
    let mut foreign = 0u64;
    for e in ends {
        let err = &e.stderr_tail;
        if e.timed_out {
            out.inconclusive(format!("{name} run of {id} kind {} shard {} hit the watchdog", layer.kind, e.shard));
            continue;
        }
        let mut reported = false;
        match tool {
            Tool::Miri => {
                if err.contains("Undefined Behavior") || err.contains("Data race detected") || err.contains("error: memory leaked") && false {
                    let pos = err.find("error: Undefined Behavior").or_else(|| err.find("Data race detected")).unwrap_or(0);
                    let block = &err[pos..];
                    let key = first_repo_frame(block);
                    let head: String = block.lines().take(1).collect();
                    reports.entry(format!("{head} @ {key}")).or_insert((0, block.chars().take(3000).collect())).0 += 1;
                    reported = true;
                } else if err.contains("error: unsupported operation") || err.contains("error: abnormal termination") || err.contains("the evaluated program deadlocked") {
                    if err.contains("the evaluated program deadlocked") {
                        reports.entry("Miri: the evaluated program deadlocked".into()).or_insert((0, err.chars().rev().take(2500).collect::<String>().chars().rev().collect())).0 += 1;
                        reported = true;
                    } else {
                        out.inconclusive(format!("miri run of {id} kind {} shard {}: {}", layer.kind, e.shard, err.lines().find(|l| l.starts_with("error")).unwrap_or("unsupported operation")));
                        continue;
                    }
                }
            }
            Tool::Tsan | Tool::Asan => {
                let marker = if tool == Tool::Tsan { "WARNING: ThreadSanitizer" } else { "ERROR: AddressSanitizer" };
                let mut rest = err.as_str();
                while let Some(p) = rest.find(marker) {
                    let after = &rest[p..];
                    let end = after[marker.len()..].find(marker).map(|x| x + marker.len()).unwrap_or(after.len());
                    let block = &after[..end];
                    let key = first_repo_frame(block);
                    if key.is_empty() && !block.contains("checks/src") {
                        foreign += 1;
                    } else {
                        let head: String = block.lines().next().unwrap_or("").to_string();
                        reports.entry(format!("{head} @ {key}")).or_insert((0, block.chars().take(3500).collect())).0 += 1;
                    }
                    reported = true;
                    rest = &after[end..];
                }
                if tool == Tool::Asan && err.contains("LeakSanitizer") {
                    // leaks are not part of these properties (set_global_default leaks by design)
                }
            }
        }
        if !reported {
            if e.status == Some(0) && e.got_result {
                ok += 1;
            } else if err.contains("HARNESS:") || !e.got_result {
                out.inconclusive(format!(
                    "{name} run of {id} kind {} shard {} ended without a result (status {:?}, signal {:?}): {}",
                    layer.kind,
                    e.shard,
                    e.status,
                    e.signal,
                    err.lines().rev().find(|l| !l.trim().is_empty()).unwrap_or("")
                ));
            } else {
                ok += 1;
            }
        }
    }
    for (k, (n, block)) in &reports {
        out.violation(
            format!("{name} report in code reached by the {id} workload ({} kind): {k} [{n} runs]", layer.kind),
            json!({"tool": name, "kind": layer.kind, "report": block, "runs_with_this_report": n}),
        );
    }
    let key = format!("{name}_{}", layer.kind);
    stats.insert(format!("{key}_runs_without_report"), json!(ok));
    stats.insert(format!("{key}_distinct_reports"), json!(reports.len()));
    if foreign > 0 {
        stats.insert(format!("{key}_reports_entirely_in_third_party_code_not_judged"), json!(foreign));
    }
    out.count(&format!("{key}_runs_without_report"), ok);
}

pub fn run(id: &str, args: &Args, out: &mut Out, extra: &mut Map<String, Value>) {
    let (bin, ls) = layers(id);
    if ls.is_empty() {
        return;
    }
    let skip_miri = std::env::var("VERIF_SKIP_MIRI").is_ok();
    let skip_san = std::env::var("VERIF_SKIP_SAN").is_ok();
    let mut stats = Map::new();
    for layer in &ls {
        let n = match args.tier {
            Tier::Quick => layer.quick,
            Tier::Thorough => layer.thorough,
        };
        let n = args.get_u64(&format!("{:?}_{}", layer.tool, layer.kind).to_lowercase(), n);
        if n == 0 {
            continue;
        }
        if (layer.tool == Tool::Miri && skip_miri) || (layer.tool != Tool::Miri && skip_san) {
            stats.insert(format!("{:?}_{}_skipped_by_env", layer.tool, layer.kind).to_lowercase(), json!(true));
            continue;
        }
        let mut spec = ChildSpec::new(layer.kind, n).timeout(900);
        for (k, v) in layer.extra {
            spec = spec.arg(k, v);
        }
        spec.stderr_keep = 30000;
        spec.env.push(("VERIF_SLOW".into(), "30".into()));
        match layer.tool {
            Tool::Miri => {
                spec.exe = Some(PathBuf::from("cargo"));
                spec.cwd = Some(harness_dir());
                spec.pre_args = ["+nightly", "miri", "run", "--offline", "-q", "-p", "checks", "--bin", bin, "--"].iter().map(|s| s.to_string()).collect();
                spec.env.push(("CARGO_TARGET_DIR".into(), harness_dir().join("target").join("miri").to_string_lossy().into_owned()));
                spec.env.push(("CARGO_NET_OFFLINE".into(), "true".into()));
                spec.env.push(("MIRIFLAGS".into(), "-Zmiri-disable-isolation -Zmiri-seed={shard} -Zmiri-preemption-rate=0.03".into()));
                // warm the build with one run before fanning out
                let mut warm = ChildSpec::new(layer.kind, 1).timeout(1800);
                warm.exe = spec.exe.clone();
                warm.cwd = spec.cwd.clone();
                warm.pre_args = spec.pre_args.clone();
                warm.env = spec.env.clone();
                warm.extra = spec.extra.clone();
                warm.extra.push("warmup=1".into());
                let mut sink = Out::new();
                let w = run::run_children(args, &warm, &mut sink);
                if w.iter().any(|e| e.stderr_tail.contains("error: could not compile") || e.stderr_tail.contains("error[E")) {
                    out.inconclusive(format!("miri layer of {id}: the interpreter build failed: {}", w[0].stderr_tail.lines().find(|l| l.starts_with("error")).unwrap_or("")));
                    continue;
                }
            }
            Tool::Tsan | Tool::Asan => match build_san(layer.tool, bin) {
                Ok(p) => {
                    spec.exe = Some(p);
                    if layer.tool == Tool::Tsan {
                        spec.env.push(("TSAN_OPTIONS".into(), "halt_on_error=0 exitcode=66 report_signal_unsafe=0".into()));
                    } else {
                        spec.env.push(("ASAN_OPTIONS".into(), "detect_leaks=0 halt_on_error=1 abort_on_error=0 exitcode=67".into()));
                    }
                }
                Err(e) => {
                    out.inconclusive(format!("{:?} layer of {id}: {e}", layer.tool));
                    continue;
                }
            },
        }
        let mut sub = Out::new();
        let ends = run::run_children(args, &spec, &mut sub);
        // fold what the in-program oracles found
        let sj = sub.to_json();
        out.merge_json(&json!({"viols": sj["viols"], "known": sj["known"], "inconclusive": sj["inconclusive"], "distinct": sj["distinct"]}));
        let key = format!("{:?}_{}", layer.tool, layer.kind).to_lowercase();
        stats.insert(format!("{key}_runs"), json!(n));
        stats.insert(format!("{key}_evaluations_inside"), json!(sub.evals));
        out.count(&format!("{key}_evaluations_inside"), sub.evals);
        classify(layer.tool, id, layer, &ends, out, &mut stats);
    }
    extra.insert("sanitizer_and_interpreter_layers".into(), Value::Object(stats));
}
