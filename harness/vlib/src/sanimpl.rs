use crate::run::{Args, Out};
use serde_json::{Map, Value};
pub fn run(_id: &str, _args: &Args, _out: &mut Out, _extra: &mut Map<String, Value>) {}
