//! ProtoCollector: a recording `Collect` with an online per-span protocol automaton (C03).
//!
//! Ids come from disjoint ranges (`cid << 40 | n`) so that a call reaching the wrong collector
//! is visible.  One variant returns a NEW id from `clone_span` (allowed by the trait docs).
use std::collections::HashMap;
use std::sync::atomic::{AtomicBool, AtomicU64, AtomicUsize, Ordering};
use std::sync::Mutex;
use std::thread::ThreadId;
use tracing_core::span::{Attributes, Current, Id, Record};
use tracing_core::{collect::Interest, Collect, Event, LevelFilter, Metadata};

#[derive(Clone, Debug, PartialEq, Eq)]
pub enum Parent {
    Contextual,
    Root,
    Explicit(u64),
}

#[derive(Clone, Debug, PartialEq, Eq)]
pub enum Call {
    New { id: u64, parent: Parent },
    Clone { id: u64, new: u64 },
    Close { id: u64 },
    Enter { id: u64 },
    Exit { id: u64 },
    Record { id: u64 },
    Follows { id: u64, from: u64 },
    Event { cur: Option<u64> },
}

#[derive(Default)]
struct St {
    log: Vec<(ThreadId, Call)>,
    /// alias id -> base id
    base: HashMap<u64, u64>,
    /// base id -> live reference count (0 = closed)
    refs: HashMap<u64, u64>,
    meta: HashMap<u64, &'static Metadata<'static>>,
    stacks: HashMap<ThreadId, Vec<u64>>,
    errors: Vec<String>,
    news: u64,
    clones: u64,
    closes: u64,
}

pub struct Proto {
    pub cid: u64,
    /// accept level rank <= thresh (1 = ERROR .. 5 = TRACE); may be changed at run time (followed
    /// by `rebuild_interest_cache`)
    thresh: AtomicUsize,
    /// announce the threshold as `max_level_hint` (a true bound) instead of `None`
    hint_on: AtomicBool,
    /// clone_span returns a fresh alias id
    pub reid: bool,
    /// ids are plain counters from 1 (as the registry and most hand-written collectors number
    /// their spans): two such collectors hand out the same numeric ids
    pub overlap: bool,
    next: AtomicU64,
    st: Mutex<St>,
}

pub fn owner_of(id: u64) -> u64 {
    id >> 40
}

impl Proto {
    pub fn new(cid: u64, thresh: usize, reid: bool) -> Self {
        Proto {
            cid,
            thresh: AtomicUsize::new(thresh),
            hint_on: AtomicBool::new(false),
            reid,
            overlap: false,
            next: AtomicU64::new(1),
            st: Mutex::new(St::default()),
        }
    }
    pub fn thresh(&self) -> usize {
        self.thresh.load(Ordering::SeqCst)
    }
    /// change the filter; the caller runs `rebuild_interest_cache()` afterwards
    pub fn refilter(&self, thresh: usize, hint_on: bool) {
        self.thresh.store(thresh, Ordering::SeqCst);
        self.hint_on.store(hint_on, Ordering::SeqCst);
    }
    pub fn overlapping(mut self) -> Self {
        self.overlap = true;
        self
    }
    fn alloc(&self) -> u64 {
        let n = self.next.fetch_add(1, Ordering::SeqCst);
        if self.overlap {
            n
        } else {
            (self.cid << 40) | n
        }
    }
    /// the id the next allocation will hand out (a heuristic for generators, racy by nature)
    pub fn peek_next(&self) -> u64 {
        let n = self.next.load(Ordering::SeqCst);
        if self.overlap {
            n
        } else {
            (self.cid << 40) | n
        }
    }
    pub fn take_log(&self) -> Vec<(ThreadId, Call)> {
        std::mem::take(&mut self.st.lock().unwrap().log)
    }
    pub fn take_errors(&self) -> Vec<String> {
        std::mem::take(&mut self.st.lock().unwrap().errors)
    }
    pub fn stack_here(&self) -> Vec<u64> {
        self.st
            .lock()
            .unwrap()
            .stacks
            .get(&std::thread::current().id())
            .cloned()
            .unwrap_or_default()
    }
    /// is (an alias of the base of) `id` entered on the calling thread?
    pub fn entered_here(&self, id: u64) -> bool {
        let st = self.st.lock().unwrap();
        let b = st.base.get(&id).copied().unwrap_or(id);
        st.stacks
            .get(&std::thread::current().id())
            .map(|s| s.iter().any(|x| st.base.get(x).copied().unwrap_or(*x) == b))
            .unwrap_or(false)
    }
    pub fn base_of(&self, id: u64) -> u64 {
        self.st.lock().unwrap().base.get(&id).copied().unwrap_or(id)
    }
    pub fn refs_of(&self, id: u64) -> Option<u64> {
        let st = self.st.lock().unwrap();
        let b = st.base.get(&id).copied().unwrap_or(id);
        st.refs.get(&b).copied()
    }
    /// (news, clones, closes, spans still open)
    pub fn totals(&self) -> (u64, u64, u64, u64) {
        let st = self.st.lock().unwrap();
        (
            st.news,
            st.clones,
            st.closes,
            st.refs.values().filter(|&&r| r > 0).count() as u64,
        )
    }
    pub fn open_spans(&self) -> Vec<(u64, u64)> {
        let st = self.st.lock().unwrap();
        st.refs
            .iter()
            .filter(|(_, &r)| r > 0)
            .map(|(&k, &v)| (k, v))
            .collect()
    }
    fn known(&self, st: &mut St, what: &str, id: u64) -> Option<u64> {
        if !self.overlap && owner_of(id) != self.cid {
            st.errors.push(format!(
                "{what}({id:#x}) reached collector {} but the id belongs to collector {}",
                self.cid,
                owner_of(id)
            ));
            return None;
        }
        let Some(&b) = st.base.get(&id) else {
            st.errors
                .push(format!("{what}({id:#x}): id was never handed out by this collector"));
            return None;
        };
        if st.refs.get(&b).copied().unwrap_or(0) == 0 {
            st.errors.push(format!(
                "{what}({id:#x}) after the close notification that balanced the span's handle count"
            ));
            return None;
        }
        Some(b)
    }
}

impl Collect for Proto {
    fn register_callsite(&self, m: &'static Metadata<'static>) -> Interest {
        if crate::rec::rank(m.level()) <= self.thresh() {
            Interest::always()
        } else {
            Interest::never()
        }
    }
    fn enabled(&self, m: &Metadata<'_>) -> bool {
        crate::rec::rank(m.level()) <= self.thresh()
    }
    fn max_level_hint(&self) -> Option<LevelFilter> {
        if self.hint_on.load(Ordering::SeqCst) {
            Some(crate::rec::filter_of(self.thresh()))
        } else {
            None
        }
    }
    fn new_span(&self, a: &Attributes<'_>) -> Id {
        let id = self.alloc();
        let parent = if a.is_contextual() {
            Parent::Contextual
        } else if a.is_root() {
            Parent::Root
        } else {
            Parent::Explicit(a.parent().map(|p| p.into_u64()).unwrap_or(0))
        };
        let mut st = self.st.lock().unwrap();
        st.base.insert(id, id);
        st.refs.insert(id, 1);
        st.meta.insert(id, a.metadata());
        st.news += 1;
        st.log
            .push((std::thread::current().id(), Call::New { id, parent }));
        Id::from_u64(id)
    }
    fn record(&self, s: &Id, _: &Record<'_>) {
        let id = s.into_u64();
        let mut st = self.st.lock().unwrap();
        self.known(&mut st, "record", id);
        st.log
            .push((std::thread::current().id(), Call::Record { id }));
    }
    fn record_follows_from(&self, s: &Id, f: &Id) {
        let id = s.into_u64();
        let mut st = self.st.lock().unwrap();
        self.known(&mut st, "record_follows_from", id);
        st.log.push((
            std::thread::current().id(),
            Call::Follows {
                id,
                from: f.into_u64(),
            },
        ));
    }
    fn event(&self, _: &Event<'_>) {
        let t = std::thread::current().id();
        let mut st = self.st.lock().unwrap();
        let cur = st.stacks.get(&t).and_then(|s| s.last().copied());
        st.log.push((t, Call::Event { cur }));
    }
    fn enter(&self, s: &Id) {
        let id = s.into_u64();
        let t = std::thread::current().id();
        let mut st = self.st.lock().unwrap();
        if self.known(&mut st, "enter", id).is_some() {
            st.stacks.entry(t).or_default().push(id);
        }
        st.log.push((t, Call::Enter { id }));
    }
    fn exit(&self, s: &Id) {
        let id = s.into_u64();
        let t = std::thread::current().id();
        let mut st = self.st.lock().unwrap();
        if let Some(b) = self.known(&mut st, "exit", id) {
            let pos = {
                let base = &st.base;
                st.stacks.get(&t).and_then(|stack| {
                    stack
                        .iter()
                        .rposition(|x| base.get(x).copied().unwrap_or(*x) == b)
                })
            };
            match pos {
                Some(p) => {
                    st.stacks.get_mut(&t).unwrap().remove(p);
                }
                None => st.errors.push(format!(
                    "exit({id:#x}) on a thread where the span is not entered (no matching enter on this thread)"
                )),
            }
        }
        st.log.push((t, Call::Exit { id }));
    }
    fn clone_span(&self, s: &Id) -> Id {
        let id = s.into_u64();
        let mut st = self.st.lock().unwrap();
        let mut new = id;
        if let Some(b) = self.known(&mut st, "clone_span", id) {
            *st.refs.get_mut(&b).unwrap() += 1;
            st.clones += 1;
            if self.reid {
                new = self.alloc();
                st.base.insert(new, b);
                let m = st.meta.get(&b).copied();
                if let Some(m) = m {
                    st.meta.insert(new, m);
                }
            }
        }
        st.log
            .push((std::thread::current().id(), Call::Clone { id, new }));
        Id::from_u64(new)
    }
    fn try_close(&self, s: Id) -> bool {
        let id = s.into_u64();
        let mut st = self.st.lock().unwrap();
        let mut closed = false;
        if let Some(b) = self.known(&mut st, "try_close", id) {
            let r = st.refs.get_mut(&b).unwrap();
            *r -= 1;
            closed = *r == 0;
            st.closes += 1;
            if closed {
                // a span closed while still entered somewhere is legal for a collector that
                // does not count enters as references; just forget the stack entries
                let base = st.base.clone();
                for stack in st.stacks.values_mut() {
                    stack.retain(|x| base.get(x).copied().unwrap_or(*x) != b);
                }
            }
        }
        st.log
            .push((std::thread::current().id(), Call::Close { id }));
        closed
    }
    fn current_span(&self) -> Current {
        let t = std::thread::current().id();
        let st = self.st.lock().unwrap();
        match st.stacks.get(&t).and_then(|s| s.last().copied()) {
            Some(id) => match st.meta.get(&id) {
                Some(m) => Current::new(Id::from_u64(id), m),
                None => Current::none(),
            },
            None => Current::none(),
        }
    }
}

/// Wrapper handed to `Dispatch::new` (the harness keeps the Arc<Proto>).
pub struct SharedProto(pub std::sync::Arc<Proto>);
impl Collect for SharedProto {
    fn register_callsite(&self, m: &'static Metadata<'static>) -> Interest {
        self.0.register_callsite(m)
    }
    fn enabled(&self, m: &Metadata<'_>) -> bool {
        self.0.enabled(m)
    }
    fn max_level_hint(&self) -> Option<LevelFilter> {
        self.0.max_level_hint()
    }
    fn new_span(&self, a: &Attributes<'_>) -> Id {
        self.0.new_span(a)
    }
    fn record(&self, s: &Id, r: &Record<'_>) {
        self.0.record(s, r)
    }
    fn record_follows_from(&self, a: &Id, b: &Id) {
        self.0.record_follows_from(a, b)
    }
    fn event(&self, e: &Event<'_>) {
        self.0.event(e)
    }
    fn enter(&self, s: &Id) {
        self.0.enter(s)
    }
    fn exit(&self, s: &Id) {
        self.0.exit(s)
    }
    fn clone_span(&self, s: &Id) -> Id {
        self.0.clone_span(s)
    }
    fn try_close(&self, s: Id) -> bool {
        self.0.try_close(s)
    }
    fn current_span(&self) -> Current {
        self.0.current_span()
    }
}
