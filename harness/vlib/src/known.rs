//! known_findings.json: committed list of genuine defects that are recorded, not repaired.
//! Never written at run time.  A "fixed" entry suppresses nothing.
use serde_json::Value;
use std::collections::BTreeMap;
use std::sync::OnceLock;

static LISTED: OnceLock<BTreeMap<String, Value>> = OnceLock::new();

fn load() -> BTreeMap<String, Value> {
    let p = crate::run::verif_root().join("known_findings.json");
    let mut m = BTreeMap::new();
    let Ok(s) = std::fs::read_to_string(&p) else {
        return m;
    };
    let Ok(v) = serde_json::from_str::<Value>(&s) else {
        eprintln!("HARNESS: {p:?} is not valid JSON");
        std::process::exit(2);
    };
    for f in v["findings"].as_array().into_iter().flatten() {
        if let Some(id) = f["id"].as_str() {
            m.insert(id.to_string(), f.clone());
        }
    }
    m
}

/// Is finding `fid` listed as a recorded (unrepaired) known finding?
pub fn listed(fid: &str) -> bool {
    LISTED.get_or_init(load).contains_key(fid)
}
