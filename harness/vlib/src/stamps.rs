//! Logical clock: one global counter; "A after B" means A.call > B.ret.
use std::sync::atomic::{AtomicU64, Ordering};
static CLOCK: AtomicU64 = AtomicU64::new(1);
#[inline]
pub fn stamp() -> u64 {
    CLOCK.fetch_add(1, Ordering::SeqCst)
}
#[derive(Clone, Copy, Debug, Default, PartialEq, Eq)]
pub struct Span2 {
    pub call: u64,
    pub ret: u64,
}
/// Run `f`, stamping before the call and after the return.
pub fn timed<R>(f: impl FnOnce() -> R) -> (Span2, R) {
    let call = stamp();
    let r = f();
    let ret = stamp();
    (Span2 { call, ret }, r)
}
