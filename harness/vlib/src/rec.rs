//! Recording collector with a self-consistent filter (C01 / C02 / C04 / C19).
//!
//! Filter = level threshold x target subset x {static, dynamic} x optional hint.
//!  * static : register_callsite answers always / never, enabled() answers accept
//!  * dynamic: register_callsite answers sometimes / never, enabled() = accept && flag
//! The hint, when present, is a true upper bound (>= threshold); callers keep it so.
use std::sync::atomic::{AtomicBool, AtomicU64, AtomicUsize, Ordering};
use std::sync::Mutex;
use tracing_core::field::{Field, Visit};
use tracing_core::span::{Attributes, Current, Id, Record};
use tracing_core::{collect::Interest, Collect, Event, LevelFilter, Metadata};

pub const TARGETS: [&str; 4] = ["app", "app::db", "application", "net"];

pub fn rank(l: &tracing_core::Level) -> usize {
    match *l {
        tracing_core::Level::ERROR => 1,
        tracing_core::Level::WARN => 2,
        tracing_core::Level::INFO => 3,
        tracing_core::Level::DEBUG => 4,
        _ => 5,
    }
}
pub fn filter_of(rank: usize) -> LevelFilter {
    [
        LevelFilter::OFF,
        LevelFilter::ERROR,
        LevelFilter::WARN,
        LevelFilter::INFO,
        LevelFilter::DEBUG,
        LevelFilter::TRACE,
    ][rank]
}

#[derive(Clone, Copy, Debug, PartialEq, Eq, Hash)]
pub struct Spec {
    /// 0 = OFF .. 5 = TRACE
    pub thresh: usize,
    /// bit i set = target i accepted
    pub targets: u8,
    pub dynamic: bool,
    /// None, or Some(rank) with rank >= thresh
    pub hint: Option<usize>,
}
impl Spec {
    pub fn accepts(&self, level: usize, target: usize) -> bool {
        level <= self.thresh && (self.targets >> target) & 1 == 1
    }
    pub fn code(&self) -> String {
        format!(
            "{}{}:{:04b}:{}",
            if self.dynamic { "D" } else { "S" },
            self.thresh,
            self.targets,
            match self.hint {
                None => "-".to_string(),
                Some(h) => h.to_string(),
            }
        )
    }
}

#[derive(Clone, Debug, PartialEq, Eq)]
pub enum Got {
    Event { id: u64, level: usize, target: usize },
    NewSpan { id: u64, level: usize, target: usize, span: u64 },
    Enter(u64),
    Exit(u64),
    Close(u64),
    Clone(u64),
    Record(u64),
}

pub struct FilterCollector {
    pub cid: u64,
    thresh: AtomicUsize,
    targets: AtomicUsize,
    hint: AtomicUsize, // 255 = none
    pub dynamic: bool,
    pub flag: AtomicBool,
    next_span: AtomicU64,
    pub log: Mutex<Vec<Got>>,
    /// metadata addresses offered through register_callsite (with repetitions)
    pub registered: Mutex<Vec<usize>>,
    /// deliveries that this collector's own filter rejects at the time of delivery
    pub bad_deliveries: AtomicU64,
    pub enabled_calls: AtomicU64,
    /// `event()` panics (payload 4343u32) after recording the event whose `id` field has this
    /// value (u64::MAX = never)
    pub panic_on_event: AtomicU64,
}

struct IdVisit(Option<u64>);
impl Visit for IdVisit {
    fn record_u64(&mut self, f: &Field, v: u64) {
        if f.name() == "id" {
            self.0 = Some(v);
        }
    }
    fn record_debug(&mut self, _: &Field, _: &dyn std::fmt::Debug) {}
}

impl FilterCollector {
    pub fn new(cid: u64, spec: Spec, flag: bool) -> Self {
        FilterCollector {
            cid,
            thresh: AtomicUsize::new(spec.thresh),
            targets: AtomicUsize::new(spec.targets as usize),
            hint: AtomicUsize::new(spec.hint.unwrap_or(255)),
            dynamic: spec.dynamic,
            flag: AtomicBool::new(flag),
            next_span: AtomicU64::new(1),
            log: Mutex::new(Vec::new()),
            registered: Mutex::new(Vec::new()),
            bad_deliveries: AtomicU64::new(0),
            enabled_calls: AtomicU64::new(0),
            panic_on_event: AtomicU64::new(u64::MAX),
        }
    }
    pub fn spec(&self) -> Spec {
        let h = self.hint.load(Ordering::SeqCst);
        Spec {
            thresh: self.thresh.load(Ordering::SeqCst),
            targets: self.targets.load(Ordering::SeqCst) as u8,
            dynamic: self.dynamic,
            hint: if h == 255 { None } else { Some(h) },
        }
    }
    /// change the filter; the caller must call rebuild_interest_cache afterwards
    pub fn refilter(&self, spec: Spec) {
        assert_eq!(spec.dynamic, self.dynamic, "HARNESS: refilter cannot change kind");
        self.thresh.store(spec.thresh, Ordering::SeqCst);
        self.targets.store(spec.targets as usize, Ordering::SeqCst);
        self.hint.store(spec.hint.unwrap_or(255), Ordering::SeqCst);
    }
    fn accept_meta(&self, m: &Metadata<'_>) -> bool {
        let Some(t) = TARGETS.iter().position(|x| *x == m.target()) else {
            return false;
        };
        self.spec().accepts(rank(m.level()), t)
    }
    pub fn take_log(&self) -> Vec<Got> {
        std::mem::take(&mut *self.log.lock().unwrap())
    }
    pub fn log_len(&self) -> usize {
        self.log.lock().unwrap().len()
    }
    fn would_deliver(&self, m: &Metadata<'_>) -> bool {
        self.accept_meta(m) && (!self.dynamic || self.flag.load(Ordering::SeqCst))
    }
}

impl Collect for FilterCollector {
    fn register_callsite(&self, m: &'static Metadata<'static>) -> Interest {
        self.registered
            .lock()
            .unwrap()
            .push(m as *const _ as usize);
        if !self.accept_meta(m) {
            Interest::never()
        } else if self.dynamic {
            Interest::sometimes()
        } else {
            Interest::always()
        }
    }
    fn enabled(&self, m: &Metadata<'_>) -> bool {
        self.enabled_calls.fetch_add(1, Ordering::Relaxed);
        self.would_deliver(m)
    }
    fn max_level_hint(&self) -> Option<LevelFilter> {
        self.spec().hint.map(filter_of)
    }
    fn new_span(&self, a: &Attributes<'_>) -> Id {
        let mut v = IdVisit(None);
        a.record(&mut v);
        let n = self.next_span.fetch_add(1, Ordering::SeqCst);
        let span = (self.cid << 32) | n;
        let m = a.metadata();
        if !self.accept_meta(m) {
            self.bad_deliveries.fetch_add(1, Ordering::SeqCst);
        }
        self.log.lock().unwrap().push(Got::NewSpan {
            id: v.0.unwrap_or(u64::MAX),
            level: rank(m.level()),
            target: TARGETS.iter().position(|x| *x == m.target()).unwrap_or(99),
            span,
        });
        Id::from_u64(span)
    }
    fn record(&self, s: &Id, _: &Record<'_>) {
        self.log.lock().unwrap().push(Got::Record(s.into_u64()));
    }
    fn record_follows_from(&self, _: &Id, _: &Id) {}
    fn event(&self, e: &Event<'_>) {
        let mut v = IdVisit(None);
        e.record(&mut v);
        let m = e.metadata();
        if !self.accept_meta(m) {
            self.bad_deliveries.fetch_add(1, Ordering::SeqCst);
        }
        self.log.lock().unwrap().push(Got::Event {
            id: v.0.unwrap_or(u64::MAX),
            level: rank(m.level()),
            target: TARGETS.iter().position(|x| *x == m.target()).unwrap_or(99),
        });
        if v.0.is_some() && v.0 == Some(self.panic_on_event.load(Ordering::SeqCst)) {
            std::panic::panic_any(4343u32);
        }
    }
    fn enter(&self, s: &Id) {
        self.log.lock().unwrap().push(Got::Enter(s.into_u64()));
    }
    fn exit(&self, s: &Id) {
        self.log.lock().unwrap().push(Got::Exit(s.into_u64()));
    }
    fn clone_span(&self, s: &Id) -> Id {
        self.log.lock().unwrap().push(Got::Clone(s.into_u64()));
        s.clone()
    }
    fn try_close(&self, s: Id) -> bool {
        self.log.lock().unwrap().push(Got::Close(s.into_u64()));
        true
    }
    fn current_span(&self) -> Current {
        Current::unknown()
    }
}

/// The value actually handed to `Dispatch::new`: dropping the last Dispatch drops this
/// wrapper (so the registry's weak reference dies) while the harness keeps the
/// `Arc<FilterCollector>` to read the logs.
pub struct Shared(pub std::sync::Arc<FilterCollector>);

impl Collect for Shared {
    fn register_callsite(&self, m: &'static Metadata<'static>) -> Interest {
        self.0.register_callsite(m)
    }
    fn enabled(&self, m: &Metadata<'_>) -> bool {
        self.0.enabled(m)
    }
    fn max_level_hint(&self) -> Option<LevelFilter> {
        self.0.max_level_hint()
    }
    fn new_span(&self, a: &Attributes<'_>) -> Id {
        self.0.new_span(a)
    }
    fn record(&self, s: &Id, r: &Record<'_>) {
        self.0.record(s, r)
    }
    fn record_follows_from(&self, a: &Id, b: &Id) {
        self.0.record_follows_from(a, b)
    }
    fn event(&self, e: &Event<'_>) {
        self.0.event(e)
    }
    fn enter(&self, s: &Id) {
        self.0.enter(s)
    }
    fn exit(&self, s: &Id) {
        self.0.exit(s)
    }
    fn clone_span(&self, s: &Id) -> Id {
        self.0.clone_span(s)
    }
    fn try_close(&self, s: Id) -> bool {
        self.0.try_close(s)
    }
    fn current_span(&self) -> Current {
        self.0.current_span()
    }
}

/// Like `Shared`, but dropping it (= dropping the last `Dispatch` clone) runs `on_drop` first:
/// a collector that emits while it is being torn down (an exporter logging on shutdown).
pub struct SharedBye {
    pub inner: std::sync::Arc<FilterCollector>,
    pub on_drop: Box<dyn Fn() + Send + Sync>,
}

impl Drop for SharedBye {
    fn drop(&mut self) {
        (self.on_drop)()
    }
}

impl Collect for SharedBye {
    fn register_callsite(&self, m: &'static Metadata<'static>) -> Interest {
        self.inner.register_callsite(m)
    }
    fn enabled(&self, m: &Metadata<'_>) -> bool {
        self.inner.enabled(m)
    }
    fn max_level_hint(&self) -> Option<LevelFilter> {
        self.inner.max_level_hint()
    }
    fn new_span(&self, a: &Attributes<'_>) -> Id {
        self.inner.new_span(a)
    }
    fn record(&self, s: &Id, r: &Record<'_>) {
        self.inner.record(s, r)
    }
    fn record_follows_from(&self, a: &Id, b: &Id) {
        self.inner.record_follows_from(a, b)
    }
    fn event(&self, e: &Event<'_>) {
        self.inner.event(e)
    }
    fn enter(&self, s: &Id) {
        self.inner.enter(s)
    }
    fn exit(&self, s: &Id) {
        self.inner.exit(s)
    }
    fn clone_span(&self, s: &Id) -> Id {
        self.inner.clone_span(s)
    }
    fn try_close(&self, s: Id) -> bool {
        self.inner.try_close(s)
    }
    fn current_span(&self) -> Current {
        self.inner.current_span()
    }
}

/// Hand the recording collector to `Dispatch::new` the ways programs do: as the value itself,
/// or behind the `Arc<C>` / `Box<C>` / `Box<dyn Collect>` implementations of `Collect` that
/// tracing-core provides (each of which must forward every method, `register_callsite` and
/// `max_level_hint` included).  `how` is reduced modulo 4.
pub fn dispatch_of(a: std::sync::Arc<FilterCollector>, how: u64) -> tracing_core::Dispatch {
    use tracing_core::Dispatch;
    match how % 4 {
        0 => Dispatch::new(Shared(a)),
        1 => Dispatch::new(std::sync::Arc::new(Shared(a))),
        2 => Dispatch::new(Box::new(Shared(a))),
        _ => {
            let b: Box<dyn Collect + Send + Sync> = Box::new(Shared(a));
            Dispatch::new(b)
        }
    }
}
pub const DISPATCH_HOW: [&str; 4] = ["C", "Arc<C>", "Box<C>", "Box<dyn Collect>"];

// ---------------------------------------------------------------------------------------------
// Zero-sized collectors in statics, handed to `Dispatch::from_static`.  Three distinct types,
// one static each (zero-sized statics may share one address); each forwards to whatever
// recording collector currently sits in its slot, or rejects everything when the slot is empty
// (`from_static` registrations never expire, so a slot outlives the history that filled it).
pub static ZSLOT: [Mutex<Option<std::sync::Arc<FilterCollector>>>; 3] = [Mutex::new(None), Mutex::new(None), Mutex::new(None)];

pub struct Zst<const K: usize>;
pub static Z0: Zst<0> = Zst;
pub static Z1: Zst<1> = Zst;
pub static Z2: Zst<2> = Zst;

fn zslot(k: usize) -> Option<std::sync::Arc<FilterCollector>> {
    ZSLOT[k].lock().unwrap_or_else(|e| e.into_inner()).clone()
}

impl<const K: usize> Collect for Zst<K> {
    fn register_callsite(&self, m: &'static Metadata<'static>) -> Interest {
        zslot(K).map(|c| c.register_callsite(m)).unwrap_or_else(Interest::never)
    }
    fn enabled(&self, m: &Metadata<'_>) -> bool {
        zslot(K).map(|c| c.enabled(m)).unwrap_or(false)
    }
    fn max_level_hint(&self) -> Option<LevelFilter> {
        match zslot(K) {
            Some(c) => c.max_level_hint(),
            None => Some(LevelFilter::OFF),
        }
    }
    fn new_span(&self, a: &Attributes<'_>) -> Id {
        zslot(K).map(|c| c.new_span(a)).unwrap_or_else(|| Id::from_u64(0xDEAD))
    }
    fn record(&self, s: &Id, r: &Record<'_>) {
        if let Some(c) = zslot(K) {
            c.record(s, r)
        }
    }
    fn record_follows_from(&self, _: &Id, _: &Id) {}
    fn event(&self, e: &Event<'_>) {
        if let Some(c) = zslot(K) {
            c.event(e)
        }
    }
    fn enter(&self, s: &Id) {
        if let Some(c) = zslot(K) {
            c.enter(s)
        }
    }
    fn exit(&self, s: &Id) {
        if let Some(c) = zslot(K) {
            c.exit(s)
        }
    }
    fn clone_span(&self, s: &Id) -> Id {
        zslot(K).map(|c| c.clone_span(s)).unwrap_or_else(|| s.clone())
    }
    fn try_close(&self, s: Id) -> bool {
        zslot(K).map(|c| c.try_close(s)).unwrap_or(true)
    }
    fn current_span(&self) -> Current {
        Current::unknown()
    }
}

/// Put `a` into slot `k` and make a Dispatch for the slot's zero-sized static collector.
pub fn static_dispatch(k: usize, a: std::sync::Arc<FilterCollector>) -> tracing_core::Dispatch {
    *ZSLOT[k].lock().unwrap_or_else(|e| e.into_inner()) = Some(a);
    match k {
        0 => tracing_core::Dispatch::from_static(&Z0),
        1 => tracing_core::Dispatch::from_static(&Z1),
        _ => tracing_core::Dispatch::from_static(&Z2),
    }
}
pub fn static_clear() {
    for s in ZSLOT.iter() {
        *s.lock().unwrap_or_else(|e| e.into_inner()) = None;
    }
}
