//! Chaos injector behind `tracing_core::verif::point`: seeded per-thread delay scripts and
//! interleaving coverage.  Perturbs and measures; never decides.
use crate::rng::Rng;
use std::cell::RefCell;
use std::sync::atomic::{AtomicU32, AtomicU64, Ordering};
use std::time::{Duration, Instant};

/// global count of hook events of armed threads (Relaxed: must not add happens-before
/// edges that would hide races from TSan / Miri)
static SEQ: AtomicU64 = AtomicU64::new(0);
/// last site seen per armed thread id (deadlock witness)
static LAST: [AtomicU32; 16] = [const { AtomicU32::new(0) }; 16];
static LAST_SEQ: [AtomicU64; 16] = [const { AtomicU64::new(0) }; 16];
/// how many dispatcher-list lock acquisitions the armed thread currently holds (from the
/// after-lock / unlocked hook pairs): wait-for information for the deadlock detector
static HELD: [AtomicU32; 16] = [const { AtomicU32::new(0) }; 16];

pub struct ThreadChaos {
    tid: usize,
    rng: Rng,
    /// probability in percent that a point does something
    intensity: u32,
    /// allow the "park until n foreign events" action
    park: bool,
    log: Vec<(u64, u32)>,
    log_cap: usize,
}

thread_local! {
    static TL: RefCell<Option<ThreadChaos>> = const { RefCell::new(None) };
}

pub fn install() {
    tracing_core::verif::set_hook(Some(hook));
}
pub fn uninstall() {
    tracing_core::verif::set_hook(None);
}

/// Arm the current thread.
pub fn arm(tid: usize, seed: u64, intensity: u32, park: bool) {
    LAST[tid % 16].store(0, Ordering::Relaxed);
    HELD[tid % 16].store(0, Ordering::Relaxed);
    TL.with(|t| {
        *t.borrow_mut() = Some(ThreadChaos {
            tid: tid % 16,
            rng: Rng::new(seed),
            intensity,
            park,
            log: Vec::with_capacity(64),
            log_cap: 4096,
        })
    });
}
/// Disarm; returns this thread's (seq, site) log.
pub fn disarm() -> Vec<(u64, u32)> {
    TL.with(|t| t.borrow_mut().take().map(|c| c.log).unwrap_or_default())
}
pub fn seq() -> u64 {
    SEQ.load(Ordering::Relaxed)
}
/// number of dispatcher-lock acquisitions thread `tid` holds right now
pub fn held_locks(tid: usize) -> u32 {
    HELD[tid % 16].load(Ordering::Relaxed)
}
pub fn last_site(tid: usize) -> (u32, u64) {
    (
        LAST[tid % 16].load(Ordering::Relaxed),
        LAST_SEQ[tid % 16].load(Ordering::Relaxed),
    )
}

fn hook(site: u32) {
    let _ = TL.try_with(|t| {
        let Ok(mut g) = t.try_borrow_mut() else {
            return;
        };
        let Some(c) = g.as_mut() else {
            return;
        };
        let seq = SEQ.fetch_add(1, Ordering::Relaxed);
        LAST[c.tid].store(site, Ordering::Relaxed);
        LAST_SEQ[c.tid].store(seq, Ordering::Relaxed);
        {
            use tracing_core::verif::site::*;
            match site {
                REG_AFTER_READ | RD_AFTER_WRITE | RIC_AFTER_WRITE => {
                    HELD[c.tid].fetch_add(1, Ordering::Relaxed);
                }
                REG_UNLOCKED | RD_UNLOCKED | RIC_UNLOCKED => {
                    let h = HELD[c.tid].load(Ordering::Relaxed);
                    HELD[c.tid].store(h.saturating_sub(1), Ordering::Relaxed);
                }
                _ => {}
            }
        }
        if c.log.len() < c.log_cap {
            c.log.push((seq, site));
        }
        if c.intensity == 0 || c.rng.below(100) >= c.intensity as u64 {
            return;
        }
        match c.rng.below(if c.park { 9 } else { 6 }) {
            0..=2 => std::thread::yield_now(),
            3..=4 => {
                let k = c.rng.below(3000);
                for _ in 0..k {
                    std::hint::spin_loop();
                }
            }
            5 => std::thread::sleep(Duration::from_micros(1 + c.rng.below(60))),
            _ => {
                // park until n further hook events (from anybody else) have passed,
                // bounded by a wall-clock fallback
                let n = 1 + c.rng.below(5);
                let until = seq + 1 + n;
                let t0 = Instant::now();
                let cap = Duration::from_micros(300 + c.rng.below(1700));
                while SEQ.load(Ordering::Relaxed) < until && t0.elapsed() < cap {
                    std::thread::yield_now();
                }
            }
        }
    });
}

pub fn site_name(s: u32) -> &'static str {
    use tracing_core::verif::site::*;
    match s {
        REG_BEFORE_READ => "reg.before_read",
        REG_AFTER_READ => "reg.after_read",
        REG_AFTER_INTEREST => "reg.after_interest",
        REG_AFTER_PUSH => "reg.after_push",
        RD_BEFORE_WRITE => "newdisp.before_write",
        RD_AFTER_WRITE => "newdisp.after_write",
        RD_AFTER_PUSH => "newdisp.after_push",
        REG_UNLOCKED => "reg.unlocked",
        RD_UNLOCKED => "newdisp.unlocked",
        RIC_UNLOCKED => "rebuild.unlocked",
        RIC_BEFORE_WRITE => "rebuild.before_write",
        RIC_AFTER_WRITE => "rebuild.after_write",
        RI_BEFORE_SET_MAX => "rebuild.before_set_max",
        LL_PUSH_BEFORE_CAS => "list.before_cas",
        LL_PUSH_CAS_FAIL => "list.cas_fail",
        SGD_AFTER_CAS => "global.after_cas",
        SGD_AFTER_STORE => "global.after_store",
        GD_AFTER_SCOPED_LOAD => "get_default.fast",
        SD_AFTER_REPLACE => "set_default.after_replace",
        DG_AFTER_DEC => "guard_drop.after_dec",
        SET_MAX_BEFORE => "set_max.before",
        MC_REG_WON => "cs.reg_won",
        MC_BEFORE_REGISTERED => "cs.before_registered",
        MC_REG_LOST => "cs.reg_lost",
        MC_INTEREST_LOADED => "cs.interest",
        CLONE_BEFORE_ADD => "clone.before_add",
        CLONE_AFTER_ADD => "clone.after_add",
        CLOSE_BEFORE_SUB => "close.before_sub",
        CLOSE_AFTER_SUB => "close.after_sub",
        ENTER_AFTER_PUSH => "enter.after_push",
        EXIT_AFTER_POP => "exit.after_pop",
        CLOSEGUARD_BEFORE_CLEAR => "closeguard.before_clear",
        DATA_CLEAR_START => "data.clear",
        MODIFY_AFTER_UNLOCK => "reload.after_unlock",
        _ => "?",
    }
}

/// Is `site` a "about to block on a lock" site?  (deadlock witness)
pub fn is_before_lock(site: u32) -> bool {
    use tracing_core::verif::site::*;
    matches!(site, REG_BEFORE_READ | RD_BEFORE_WRITE | RIC_BEFORE_WRITE)
}

/// Merge per-thread logs into one global order; returns (signature hash, ordered (tid, site)).
/// `skip` filters out high-frequency sites that would make every signature unique.
pub fn signature(logs: &[(usize, Vec<(u64, u32)>)], skip: &[u32]) -> (u64, Vec<(usize, u32)>) {
    let mut all: Vec<(u64, usize, u32)> = vec![];
    for (tid, l) in logs {
        for &(s, site) in l {
            if !skip.contains(&site) {
                all.push((s, *tid, site));
            }
        }
    }
    all.sort();
    let ord: Vec<(usize, u32)> = all.iter().map(|&(_, t, s)| (t, s)).collect();
    let mut bytes = Vec::with_capacity(ord.len() * 2);
    for &(t, s) in &ord {
        bytes.push(t as u8);
        bytes.push(s as u8);
    }
    (crate::rng::hash_bytes(&bytes), ord)
}

/// For coverage: the set of ordered cross-thread pairs "(site a on some thread) before
/// (site b on another thread)" present in this execution (first occurrences only).
pub fn pair_orders(ord: &[(usize, u32)]) -> Vec<(u32, u32)> {
    let mut first: Vec<(usize, u32, usize)> = vec![]; // (tid, site, pos)
    for (pos, &(t, s)) in ord.iter().enumerate() {
        if !first.iter().any(|&(t2, s2, _)| t2 == t && s2 == s) {
            first.push((t, s, pos));
        }
    }
    let mut out = vec![];
    for &(t1, s1, p1) in &first {
        for &(t2, s2, p2) in &first {
            if t1 != t2 && p1 < p2 {
                out.push((s1, s2));
            }
        }
    }
    out.sort();
    out.dedup();
    out
}
