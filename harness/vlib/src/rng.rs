//! Deterministic PRNG (SplitMix64 seeding + xoshiro256**); no external crates.

#[derive(Clone, Debug)]
pub struct Rng {
    s: [u64; 4],
}

fn splitmix(x: &mut u64) -> u64 {
    *x = x.wrapping_add(0x9E37_79B9_7F4A_7C15);
    let mut z = *x;
    z = (z ^ (z >> 30)).wrapping_mul(0xBF58_476D_1CE4_E5B9);
    z = (z ^ (z >> 27)).wrapping_mul(0x94D0_49BB_1331_11EB);
    z ^ (z >> 31)
}

impl Rng {
    pub fn new(seed: u64) -> Self {
        let mut x = seed ^ 0xA076_1D64_78BD_642F;
        let s = [
            splitmix(&mut x),
            splitmix(&mut x),
            splitmix(&mut x),
            splitmix(&mut x),
        ];
        Rng { s }
    }
    /// Derive an independent stream from (seed, a, b).
    pub fn derive(seed: u64, a: u64, b: u64) -> Self {
        let mut x = seed;
        let k = splitmix(&mut x) ^ a.wrapping_mul(0xD6E8_FEB8_6659_FD93);
        let mut y = k;
        let k2 = splitmix(&mut y) ^ b.wrapping_mul(0xCA5A_8263_9512_1157);
        Rng::new(k2)
    }
    pub fn fork(&mut self) -> Rng {
        Rng::new(self.next_u64())
    }
    pub fn next_u64(&mut self) -> u64 {
        let r = self.s[1].wrapping_mul(5).rotate_left(7).wrapping_mul(9);
        let t = self.s[1] << 17;
        self.s[2] ^= self.s[0];
        self.s[3] ^= self.s[1];
        self.s[1] ^= self.s[2];
        self.s[0] ^= self.s[3];
        self.s[2] ^= t;
        self.s[3] = self.s[3].rotate_left(45);
        r
    }
    pub fn next_u32(&mut self) -> u32 {
        (self.next_u64() >> 32) as u32
    }
    /// uniform in 0..n (n > 0)
    pub fn below(&mut self, n: u64) -> u64 {
        assert!(n > 0, "HARNESS: below(0)");
        // Lemire's method without the rejection loop is biased by < 2^-64 * n; irrelevant here.
        ((self.next_u64() as u128 * n as u128) >> 64) as u64
    }
    pub fn usize(&mut self, n: usize) -> usize {
        self.below(n as u64) as usize
    }
    /// uniform in lo..=hi
    pub fn range(&mut self, lo: i64, hi: i64) -> i64 {
        assert!(hi >= lo);
        let span = (hi as i128 - lo as i128 + 1) as u128;
        if span > u64::MAX as u128 {
            return self.next_u64() as i64;
        }
        (lo as i128 + self.below(span as u64) as i128) as i64
    }
    pub fn chance(&mut self, num: u64, den: u64) -> bool {
        self.below(den) < num
    }
    pub fn bool(&mut self) -> bool {
        self.next_u64() & 1 == 1
    }
    pub fn pick<'a, T>(&mut self, xs: &'a [T]) -> &'a T {
        &xs[self.usize(xs.len())]
    }
    pub fn shuffle<T>(&mut self, xs: &mut [T]) {
        for i in (1..xs.len()).rev() {
            let j = self.usize(i + 1);
            xs.swap(i, j);
        }
    }
    pub fn f64(&mut self) -> f64 {
        (self.next_u64() >> 11) as f64 / (1u64 << 53) as f64
    }
    /// index chosen by integer weights
    pub fn weighted(&mut self, w: &[u32]) -> usize {
        let tot: u64 = w.iter().map(|&x| x as u64).sum();
        let mut r = self.below(tot);
        for (i, &x) in w.iter().enumerate() {
            if r < x as u64 {
                return i;
            }
            r -= x as u64;
        }
        w.len() - 1
    }
}

/// FNV-1a 64 for distinctness signatures
pub fn hash_bytes(b: &[u8]) -> u64 {
    let mut h: u64 = 0xcbf2_9ce4_8422_2325;
    for &x in b {
        h ^= x as u64;
        h = h.wrapping_mul(0x0000_0100_0000_01B3);
    }
    h
}
pub fn hash_str(s: &str) -> u64 {
    hash_bytes(s.as_bytes())
}
