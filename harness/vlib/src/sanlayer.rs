//! Miri / TSan / ASan layers: runs the scenario package /verif/harness/san (own workspace)
//! under the interpreter / sanitizers and folds the outcome into the check's verdict.
//! (filled in by san.rs of each property; see DESIGN.md section 4)
use crate::run::{Args, Out};
use serde_json::{Map, Value};

/// Runs the extra layers registered for `id` (if any).  A sanitizer / Miri report is a
/// violation; failure to build or run the layer is inconclusive, never a violation.
pub fn run_layers(id: &str, args: &Args, out: &mut Out, extra: &mut Map<String, Value>) {
    crate::sanimpl::run(id, args, out, extra)
}
