//! Text generators shared by the C18 binaries (`checks/src/bin/c18.rs`, `c18log`).
//!
//! `ustr` produces arbitrary Unicode text: ASCII incl. the characters that matter to
//! log/fmt renderers (`"`, `\`, `=`, `{`, `}`, `:`, space), control characters, Latin-1,
//! CJK, combining marks, right-to-left, astral-plane code points and the extremes.
use crate::rng::Rng;

const PUNCT: &[char] = &[
    '"', '\\', '=', '{', '}', ':', ' ', ';', '\'', '%', '?', '.', ',', '-', '_', '/', '<', '>', '[', ']', '#',
];
const CTRL: &[char] = &['\n', '\t', '\r', '\0', '\u{1b}', '\u{7f}', '\u{85}', '\u{2028}'];
const EXTREME: &[char] = &['\u{80}', '\u{7ff}', '\u{800}', '\u{ffff}', '\u{10000}', '\u{10ffff}', '\u{d7ff}', '\u{e000}', '\u{feff}', '\u{fffd}'];

pub fn uchar(rng: &mut Rng) -> char {
    match rng.weighted(&[30, 10, 12, 3, 8, 10, 4, 4, 8, 3]) {
        0 => (b'a' + rng.below(26) as u8) as char,
        1 => (b'0' + rng.below(10) as u8) as char,
        2 => *rng.pick(PUNCT),
        3 => *rng.pick(CTRL),
        4 => char::from_u32(0xA1 + rng.below(0x5e) as u32).unwrap_or('¿'),
        5 => char::from_u32(0x4E00 + rng.below(0x5000) as u32).unwrap_or('中'),
        6 => char::from_u32(0x0300 + rng.below(0x70) as u32).unwrap_or('\u{301}'),
        7 => char::from_u32(0x05D0 + rng.below(27) as u32).unwrap_or('א'),
        8 => char::from_u32(0x1F300 + rng.below(0x300) as u32).unwrap_or('🎉'),
        _ => *rng.pick(EXTREME),
    }
}

/// 0..=max_chars arbitrary characters (empty string included).
pub fn ustr(rng: &mut Rng, max_chars: usize) -> String {
    let n = match rng.below(10) {
        0 => 0,
        1 => 1,
        2 => max_chars,
        _ => rng.usize(max_chars + 1),
    };
    (0..n).map(|_| uchar(rng)).collect()
}

/// A module-path-looking identifier: `seg(::seg)*`.
pub fn pathish(rng: &mut Rng) -> String {
    const SEG: &[&str] = &["app", "db", "net", "foo", "foobar", "foo_bar", "hyper", "h2", "x", "tokio_util", "日本", "été"];
    let n = 1 + rng.usize(3);
    (0..n).map(|_| *rng.pick(SEG)).collect::<Vec<_>>().join("::")
}
