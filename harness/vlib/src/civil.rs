//! Independent proleptic-Gregorian calendar arithmetic (Howard Hinnant's algorithms,
//! written in i128 so the whole SystemTime range is representable).

/// days since 1970-01-01 for civil date (y, m, d)
pub fn days_from_civil(y: i128, m: u32, d: u32) -> i128 {
    let y = if m <= 2 { y - 1 } else { y };
    let era = if y >= 0 { y } else { y - 399 } / 400;
    let yoe = y - era * 400; // [0, 399]
    let mp = (m as i128 + 9) % 12; // March = 0
    let doy = (153 * mp + 2) / 5 + d as i128 - 1; // [0, 365]
    let doe = yoe * 365 + yoe / 4 - yoe / 100 + doy; // [0, 146096]
    era * 146097 + doe - 719468
}

/// civil date for days since 1970-01-01
pub fn civil_from_days(z: i128) -> (i128, u32, u32) {
    let z = z + 719468;
    let era = if z >= 0 { z } else { z - 146096 } / 146097;
    let doe = z - era * 146097; // [0, 146096]
    let yoe = (doe - doe / 1460 + doe / 36524 - doe / 146096) / 365; // [0, 399]
    let y = yoe + era * 400;
    let doy = doe - (365 * yoe + yoe / 4 - yoe / 100); // [0, 365]
    let mp = (5 * doy + 2) / 153; // [0, 11]
    let d = (doy - (153 * mp + 2) / 5 + 1) as u32;
    let m = if mp < 10 { mp + 3 } else { mp - 9 } as u32;
    (if m <= 2 { y + 1 } else { y }, m, d)
}

pub fn is_leap(y: i128) -> bool {
    (y % 4 == 0 && y % 100 != 0) || y % 400 == 0
}
pub fn days_in_month(y: i128, m: u32) -> u32 {
    match m {
        1 | 3 | 5 | 7 | 8 | 10 | 12 => 31,
        4 | 6 | 9 | 11 => 30,
        _ => {
            if is_leap(y) {
                29
            } else {
                28
            }
        }
    }
}

#[derive(Clone, Copy, Debug, PartialEq, Eq, PartialOrd, Ord)]
pub struct Civil {
    pub year: i128,
    pub month: u32,
    pub day: u32,
    pub hour: u32,
    pub minute: u32,
    pub second: u32,
    pub nanos: u32,
}

/// Civil UTC time for (seconds, nanos) relative to the unix epoch, where the instant is
/// `secs + nanos/1e9` with 0 <= nanos < 1e9 (floor semantics for negative instants).
pub fn civil_from_unix(secs: i128, nanos: u32) -> Civil {
    let days = secs.div_euclid(86400);
    let rem = secs.rem_euclid(86400) as u32;
    let (year, month, day) = civil_from_days(days);
    Civil {
        year,
        month,
        day,
        hour: rem / 3600,
        minute: rem % 3600 / 60,
        second: rem % 60,
        nanos,
    }
}
pub fn unix_from_civil(y: i128, mo: u32, d: u32, h: u32, mi: u32, s: u32) -> i128 {
    days_from_civil(y, mo, d) * 86400 + h as i128 * 3600 + mi as i128 * 60 + s as i128
}

#[cfg(test)]
mod t {
    use super::*;
    #[test]
    fn roundtrip() {
        for z in -800000..800000i128 {
            let (y, m, d) = civil_from_days(z);
            assert_eq!(days_from_civil(y, m, d), z);
            assert!(d >= 1 && d <= days_in_month(y, m));
        }
        assert_eq!(civil_from_days(0), (1970, 1, 1));
        assert_eq!(civil_from_days(11017), (2000, 3, 1));
        assert_eq!(civil_from_days(-1), (1969, 12, 31));
    }
}
