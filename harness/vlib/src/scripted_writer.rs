//! `ScriptedWriter`: an `io::Write + Send + 'static` sink whose pacing, failures and release
//! are scripted by the scenario and whose every call is logged with logical stamps
//! (DESIGN.md 5/C15).  It records; it never judges.
//!
//! * gate (Mutex + Condvar): the scenario can close/open it, and the script can make the
//!   writer close it on itself before a given write ordinal ("stall"); a stalled writer waits
//!   until the scenario opens the gate.  `seal_open()` opens it for good (used before a guard
//!   drop: the gate is never closed across a drop).  A wait longer than `max_gate_wait` gives
//!   up, is counted in `gate_timeouts` and must be reported as inconclusive by the check.
//! * fault script: sets of write-call ordinals / flush-call ordinals that return an
//!   `io::Error`; write ordinals that return `ErrorKind::Interrupted` once (`write_all`
//!   retries those); optionally a one-shot "fail the next flush" armed at run time.
//! * chunking: accept at most `chunk` bytes per `write` call (exercises `write_all`).
//! * drop stamp set in `Drop`.
use crate::stamps::stamp;
use std::collections::BTreeSet;
use std::io;
use std::sync::atomic::{AtomicBool, AtomicU64, Ordering};
use std::sync::{Arc, Condvar, Mutex};
use std::time::{Duration, Instant};

#[derive(Clone, Copy, Debug, PartialEq, Eq)]
pub enum Pace {
    None,
    Yield,
    /// busy-spin this many iterations before every write
    Spin(u32),
    /// sleep this many microseconds before every write
    SleepUs(u32),
}

#[derive(Clone, Debug)]
pub struct Script {
    pub fail_writes: BTreeSet<u64>,
    pub interrupt_writes: BTreeSet<u64>,
    pub fail_flushes: BTreeSet<u64>,
    pub chunk: Option<usize>,
    pub stall_at: BTreeSet<u64>,
    pub pace: Pace,
    pub max_gate_wait: Duration,
}

impl Default for Script {
    fn default() -> Self {
        Script {
            fail_writes: BTreeSet::new(),
            interrupt_writes: BTreeSet::new(),
            fail_flushes: BTreeSet::new(),
            chunk: None,
            stall_at: BTreeSet::new(),
            pace: Pace::None,
            max_gate_wait: Duration::from_secs(10),
        }
    }
}

#[derive(Clone, Debug, PartialEq, Eq)]
pub enum Res {
    /// bytes accepted (writes) / 0 (flush)
    Ok(usize),
    /// injected hard error (ErrorKind::Other)
    Fail,
    /// injected ErrorKind::Interrupted
    Interrupted,
}

#[derive(Clone, Debug)]
pub enum Call {
    Write { ord: u64, call: u64, ret: u64, buf: Vec<u8>, res: Res },
    /// `armed`: failed by the run-time "fail next flush" switch rather than by ordinal
    Flush { ord: u64, call: u64, ret: u64, res: Res, armed: bool },
    Drop { stamp: u64 },
}

struct Gate {
    open: bool,
    stalls_enabled: bool,
    /// the writer is currently waiting at the gate
    waiting: bool,
}

pub struct Inner {
    gate: Mutex<Gate>,
    gate_cv: Condvar,
    log: Mutex<Vec<Call>>,
    dropped: Mutex<Option<u64>>,
    dropped_cv: Condvar,
    fail_next_flush: AtomicBool,
    /// lines finished by the writer: a write that accepted the rest of a buffer ending in
    /// b'\n', or a write that failed hard
    lines_done: AtomicU64,
    writes: AtomicU64,
    flushes: AtomicU64,
    last_was_flush: AtomicBool,
    pub gate_timeouts: AtomicU64,
    pub stalls: AtomicU64,
    /// stamps at which the scenario opened the gate after a stall
    opens: Mutex<Vec<u64>>,
}

/// The scenario's handle.
#[derive(Clone)]
pub struct Ctl(pub Arc<Inner>);

pub struct ScriptedWriter {
    script: Script,
    inner: Arc<Inner>,
    next_write: u64,
    next_flush: u64,
}

impl ScriptedWriter {
    pub fn new(script: Script) -> (Ctl, ScriptedWriter) {
        let inner = Arc::new(Inner {
            gate: Mutex::new(Gate { open: true, stalls_enabled: true, waiting: false }),
            gate_cv: Condvar::new(),
            log: Mutex::new(Vec::new()),
            dropped: Mutex::new(None),
            dropped_cv: Condvar::new(),
            fail_next_flush: AtomicBool::new(false),
            lines_done: AtomicU64::new(0),
            writes: AtomicU64::new(0),
            flushes: AtomicU64::new(0),
            last_was_flush: AtomicBool::new(false),
            gate_timeouts: AtomicU64::new(0),
            stalls: AtomicU64::new(0),
            opens: Mutex::new(Vec::new()),
        });
        (
            Ctl(inner.clone()),
            ScriptedWriter { script, inner, next_write: 0, next_flush: 0 },
        )
    }

    fn pass_gate(&self, stall: bool) {
        let mut g = self.inner.gate.lock().unwrap();
        if stall && g.stalls_enabled {
            g.open = false;
            self.inner.stalls.fetch_add(1, Ordering::SeqCst);
        }
        if g.open {
            return;
        }
        let t0 = Instant::now();
        g.waiting = true;
        self.inner.gate_cv.notify_all();
        while !g.open {
            let left = self.script.max_gate_wait.saturating_sub(t0.elapsed());
            if left.is_zero() {
                self.inner.gate_timeouts.fetch_add(1, Ordering::SeqCst);
                g.open = true;
                break;
            }
            let (g2, _) = self.inner.gate_cv.wait_timeout(g, left).unwrap();
            g = g2;
        }
        g.waiting = false;
        self.inner.gate_cv.notify_all();
    }
}

impl io::Write for ScriptedWriter {
    fn write(&mut self, buf: &[u8]) -> io::Result<usize> {
        let call = stamp();
        let ord = self.next_write;
        self.next_write += 1;
        match self.script.pace {
            Pace::None => {}
            Pace::Yield => std::thread::yield_now(),
            Pace::Spin(n) => {
                for _ in 0..n {
                    std::hint::spin_loop();
                }
            }
            Pace::SleepUs(us) => std::thread::sleep(Duration::from_micros(us as u64)),
        }
        self.pass_gate(self.script.stall_at.contains(&ord));
        let res = if self.script.fail_writes.contains(&ord) {
            Res::Fail
        } else if self.script.interrupt_writes.contains(&ord) {
            Res::Interrupted
        } else {
            let n = match self.script.chunk {
                Some(c) => buf.len().min(c.max(1)),
                None => buf.len(),
            };
            Res::Ok(n)
        };
        let line_done = match res {
            Res::Fail => true,
            Res::Interrupted => false,
            Res::Ok(n) => n == buf.len() && buf.last() == Some(&b'\n'),
        };
        let ret = stamp();
        self.inner.log.lock().unwrap().push(Call::Write {
            ord,
            call,
            ret,
            buf: buf.to_vec(),
            res: res.clone(),
        });
        self.inner.last_was_flush.store(false, Ordering::SeqCst);
        self.inner.writes.fetch_add(1, Ordering::SeqCst);
        if line_done {
            self.inner.lines_done.fetch_add(1, Ordering::SeqCst);
        }
        match res {
            Res::Ok(n) => Ok(n),
            Res::Fail => Err(io::Error::new(io::ErrorKind::Other, "injected write failure")),
            Res::Interrupted => Err(io::Error::from(io::ErrorKind::Interrupted)),
        }
    }

    fn flush(&mut self) -> io::Result<()> {
        let call = stamp();
        let ord = self.next_flush;
        self.next_flush += 1;
        let armed = self.inner.fail_next_flush.swap(false, Ordering::SeqCst);
        let fail = armed || self.script.fail_flushes.contains(&ord);
        let ret = stamp();
        self.inner.log.lock().unwrap().push(Call::Flush {
            ord,
            call,
            ret,
            res: if fail { Res::Fail } else { Res::Ok(0) },
            armed,
        });
        self.inner.flushes.fetch_add(1, Ordering::SeqCst);
        self.inner.last_was_flush.store(true, Ordering::SeqCst);
        if fail {
            Err(io::Error::new(io::ErrorKind::Other, "injected flush failure"))
        } else {
            Ok(())
        }
    }
}

impl Drop for ScriptedWriter {
    fn drop(&mut self) {
        let s = stamp();
        self.inner.log.lock().unwrap().push(Call::Drop { stamp: s });
        *self.inner.dropped.lock().unwrap() = Some(s);
        self.inner.dropped_cv.notify_all();
    }
}

impl Ctl {
    pub fn close(&self) {
        let mut g = self.0.gate.lock().unwrap();
        if g.stalls_enabled {
            g.open = false;
        }
    }
    /// open the gate (after a stall); returns the stamp of the opening
    pub fn open(&self) -> u64 {
        let mut g = self.0.gate.lock().unwrap();
        let s = stamp();
        if !g.open {
            self.0.opens.lock().unwrap().push(s);
        }
        g.open = true;
        self.0.gate_cv.notify_all();
        s
    }
    /// open the gate and forbid closing it again (call before every guard drop)
    pub fn seal_open(&self) {
        let mut g = self.0.gate.lock().unwrap();
        g.stalls_enabled = false;
        if !g.open {
            self.0.opens.lock().unwrap().push(stamp());
        }
        g.open = true;
        self.0.gate_cv.notify_all();
    }
    pub fn is_sealed(&self) -> bool {
        !self.0.gate.lock().unwrap().stalls_enabled
    }
    /// is the writer waiting at the closed gate right now?
    pub fn is_stalled(&self) -> bool {
        let g = self.0.gate.lock().unwrap();
        g.waiting && !g.open
    }
    pub fn arm_fail_next_flush(&self) {
        self.0.fail_next_flush.store(true, Ordering::SeqCst);
    }
    pub fn disarm_fail_next_flush(&self) -> bool {
        self.0.fail_next_flush.swap(false, Ordering::SeqCst)
    }
    pub fn lines_done(&self) -> u64 {
        self.0.lines_done.load(Ordering::SeqCst)
    }
    pub fn writes(&self) -> u64 {
        self.0.writes.load(Ordering::SeqCst)
    }
    pub fn flushes(&self) -> u64 {
        self.0.flushes.load(Ordering::SeqCst)
    }
    pub fn last_was_flush(&self) -> bool {
        self.0.last_was_flush.load(Ordering::SeqCst)
    }
    pub fn gate_timeouts(&self) -> u64 {
        self.0.gate_timeouts.load(Ordering::SeqCst)
    }
    pub fn stalls(&self) -> u64 {
        self.0.stalls.load(Ordering::SeqCst)
    }
    pub fn opens(&self) -> Vec<u64> {
        self.0.opens.lock().unwrap().clone()
    }
    pub fn dropped_stamp(&self) -> Option<u64> {
        *self.0.dropped.lock().unwrap()
    }
    /// wait (wall clock, for orchestration only) until the writer has been dropped
    pub fn wait_dropped(&self, max: Duration) -> Option<u64> {
        let t0 = Instant::now();
        let mut d = self.0.dropped.lock().unwrap();
        while d.is_none() {
            let left = max.saturating_sub(t0.elapsed());
            if left.is_zero() {
                break;
            }
            let (d2, _) = self.0.dropped_cv.wait_timeout(d, left).unwrap();
            d = d2;
        }
        *d
    }
    pub fn log(&self) -> Vec<Call> {
        self.0.log.lock().unwrap().clone()
    }
}
