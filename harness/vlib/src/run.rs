//! Parent/child orchestration, result merging, evidence and verdict output.
//!
//! Exit codes: 0 held on everything explored; 1 + `VIOLATION property=<id> replay=<path>`;
//! 2 observed too little / harness failure (never a VIOLATION line).

use serde_json::{json, Map, Value};
use std::collections::{BTreeMap, BTreeSet, HashSet};
use std::io::{Read, Write};
use std::path::PathBuf;
use std::process::{Command, Stdio};
use std::sync::atomic::{AtomicUsize, Ordering};
use std::sync::{Arc, Mutex};
use std::time::{Duration, Instant};

#[derive(Clone, Copy, Debug, PartialEq, Eq)]
pub enum Tier {
    Quick,
    Thorough,
}
impl Tier {
    pub fn name(self) -> &'static str {
        match self {
            Tier::Quick => "quick",
            Tier::Thorough => "thorough",
        }
    }
    /// pick by tier
    pub fn pick<T>(self, q: T, t: T) -> T {
        match self {
            Tier::Quick => q,
            Tier::Thorough => t,
        }
    }
}

#[derive(Clone, Debug)]
pub enum Mode {
    Parent,
    Child(String),
    Replay(PathBuf),
}

#[derive(Clone, Debug)]
pub struct Args {
    pub mode: Mode,
    pub tier: Tier,
    pub seed: u64,
    pub shard: u64,
    pub nshards: u64,
    /// free-form key=value extras passed parent -> child
    pub kv: BTreeMap<String, String>,
}

impl Args {
    pub fn get(&self, k: &str) -> Option<&str> {
        self.kv.get(k).map(|s| s.as_str())
    }
    pub fn get_u64(&self, k: &str, d: u64) -> u64 {
        self.get(k).and_then(|s| s.parse().ok()).unwrap_or(d)
    }
}

/// argv of this process (without the program name)
pub fn raw_argv() -> Vec<String> {
    std::env::args().skip(1).collect()
}

/// Replay: re-execute this binary with the `child_args` stored in the replay file and
/// report what it finds.  Exit 1 if the re-execution reports a violation.
pub fn replay(id: &str, path: &std::path::Path) -> ! {
    let s = std::fs::read_to_string(path).unwrap_or_else(|e| {
        eprintln!("HARNESS: cannot read replay file {path:?}: {e}");
        std::process::exit(2)
    });
    let v: Value = serde_json::from_str(&s).unwrap_or_else(|e| {
        eprintln!("HARNESS: bad replay file: {e}");
        std::process::exit(2)
    });
    println!("replaying: {}", v["what"].as_str().unwrap_or("?"));
    let args: Vec<String> = v["witness"]["child_args"]
        .as_array()
        .map(|a| a.iter().filter_map(|x| x.as_str().map(String::from)).collect())
        .unwrap_or_default();
    if args.is_empty() || !args.iter().any(|a| a == "--child") {
        println!("stored witness (no child to re-execute):\n{}", serde_json::to_string_pretty(&v["witness"]).unwrap());
        std::process::exit(1);
    }
    let exe = std::env::current_exe().expect("HARNESS: current_exe");
    let o = Command::new(exe).args(&args).output().expect("HARNESS: spawn replay");
    let so = String::from_utf8_lossy(&o.stdout);
    let mut out = Out::new();
    for line in so.lines() {
        if let Some(js) = line.strip_prefix("RESULT ") {
            if let Ok(v) = serde_json::from_str::<Value>(js) {
                out.merge_json(&v);
            }
        } else {
            println!("{line}");
        }
    }
    eprint!("{}", String::from_utf8_lossy(&o.stderr));
    for v in &out.viols {
        println!("VIOLATION property={} replay={} :: {}", id, path.display(), v.what);
        println!("{}", serde_json::to_string_pretty(&v.witness).unwrap());
    }
    if !out.viols.is_empty() || !o.status.success() {
        std::process::exit(1);
    }
    println!("replay of {} did not reproduce a violation (evaluations={})", path.display(), out.evals);
    std::process::exit(0)
}

pub fn verif_root() -> PathBuf {
    PathBuf::from(std::env::var("VERIF_ROOT").unwrap_or_else(|_| "/verif".to_string()))
}

pub fn parse_args() -> Args {
    let mut a = Args {
        mode: Mode::Parent,
        tier: Tier::Quick,
        seed: std::env::var("VERIF_SEED")
            .ok()
            .and_then(|s| s.parse().ok())
            .unwrap_or(1),
        shard: 0,
        nshards: 1,
        kv: BTreeMap::new(),
    };
    let argv: Vec<String> = std::env::args().skip(1).collect();
    let mut i = 0;
    while i < argv.len() {
        match argv[i].as_str() {
            "quick" => a.tier = Tier::Quick,
            "thorough" => a.tier = Tier::Thorough,
            "--child" => {
                i += 1;
                a.mode = Mode::Child(argv[i].clone());
            }
            "--replay" => {
                i += 1;
                a.mode = Mode::Replay(PathBuf::from(&argv[i]));
            }
            "--seed" => {
                i += 1;
                a.seed = argv[i].parse().expect("HARNESS: bad seed");
            }
            "--shard" => {
                i += 1;
                a.shard = argv[i].parse().expect("HARNESS: bad shard");
            }
            "--nshards" => {
                i += 1;
                a.nshards = argv[i].parse().expect("HARNESS: bad nshards");
            }
            s if s.contains('=') => {
                let (k, v) = s.split_once('=').unwrap();
                a.kv.insert(k.to_string(), v.to_string());
            }
            other => {
                eprintln!("HARNESS: unknown argument {other}");
                std::process::exit(2);
            }
        }
        i += 1;
    }
    a
}

/// One violation witness.
#[derive(Clone, Debug)]
pub struct Viol {
    pub what: String,
    pub witness: Value,
}

/// Result accumulator; children print it, the parent merges many.
#[derive(Default, Debug)]
pub struct Out {
    pub evals: u64,
    pub distinct: HashSet<u64>,
    pub counters: BTreeMap<String, u64>,
    pub sets: BTreeMap<String, BTreeSet<String>>,
    pub samples: Vec<Value>,
    pub viols: Vec<Viol>,
    /// finding id -> (count, description of what failed, one example)
    pub known: BTreeMap<String, (u64, String, Value)>,
    pub inconclusive: Vec<String>,
    pub harness_errors: Vec<String>,
}

pub const MAX_SAMPLES: usize = 6;
pub const MAX_VIOLS: usize = 20;
const MAX_DISTINCT_PER_CHILD: usize = 400_000;

impl Out {
    pub fn new() -> Self {
        Self::default()
    }
    pub fn count(&mut self, k: &str, n: u64) {
        *self.counters.entry(k.to_string()).or_insert(0) += n;
    }
    pub fn max(&mut self, k: &str, n: u64) {
        let e = self.counters.entry(format!("max_{k}")).or_insert(0);
        if n > *e {
            *e = n;
        }
    }
    pub fn set(&mut self, k: &str, v: impl Into<String>) {
        let s = self.sets.entry(k.to_string()).or_default();
        if s.len() < 4096 {
            s.insert(v.into());
        }
    }
    pub fn distinct(&mut self, h: u64) {
        if self.distinct.len() < MAX_DISTINCT_PER_CHILD {
            self.distinct.insert(h);
        }
    }
    pub fn distinct_str(&mut self, s: &str) {
        self.distinct(crate::rng::hash_str(s));
    }
    pub fn sample(&mut self, v: Value) {
        if self.samples.len() < MAX_SAMPLES {
            self.samples.push(v);
        }
    }
    pub fn violation(&mut self, what: impl Into<String>, witness: Value) {
        self.count("violations_seen", 1);
        if self.viols.len() < MAX_VIOLS {
            let witness = match witness {
                Value::Object(mut m) => {
                    if !m.contains_key("child_args") {
                        m.insert("child_args".into(), json!(raw_argv()));
                    }
                    Value::Object(m)
                }
                other => json!({"child_args": raw_argv(), "detail": other}),
            };
            self.viols.push(Viol {
                what: what.into(),
                witness,
            });
        }
    }
    /// A divergence that matches the signature of finding `fid`.  If `fid` is listed
    /// in known_findings.json it is reported as KNOWN-FINDING, otherwise as a violation.
    pub fn finding(&mut self, fid: &str, what: impl Into<String>, witness: Value) {
        let what = what.into();
        if crate::known::listed(fid) {
            let e = self
                .known
                .entry(fid.to_string())
                .or_insert((0, what.clone(), witness.clone()));
            e.0 += 1;
        } else {
            self.violation(format!("[{fid}] {what}"), witness);
        }
    }
    pub fn inconclusive(&mut self, why: impl Into<String>) {
        self.count("inconclusive", 1);
        if self.inconclusive.len() < 20 {
            self.inconclusive.push(why.into());
        }
    }

    pub fn to_json(&self) -> Value {
        json!({
            "evals": self.evals,
            "distinct": self.distinct.iter().collect::<Vec<_>>(),
            "counters": self.counters,
            "sets": self.sets,
            "samples": self.samples,
            "viols": self.viols.iter().map(|v| json!({"what": v.what, "witness": v.witness})).collect::<Vec<_>>(),
            "known": self.known.iter().map(|(k,(n,w,ex))| json!({"id":k,"n":n,"what":w,"ex":ex})).collect::<Vec<_>>(),
            "inconclusive": self.inconclusive,
            "harness_errors": self.harness_errors,
        })
    }
    /// child side: print the result line
    pub fn emit(&self) {
        let mut j = self.to_json();
        // which kind of build produced this result (checked by `dbg_build_layer`)
        j["sets"]["built_with_debug_assertions"] = json!([if cfg!(debug_assertions) { "true" } else { "false" }]);
        let s = serde_json::to_string(&j).unwrap();
        let out = std::io::stdout();
        let mut l = out.lock();
        let _ = writeln!(l, "RESULT {s}");
        let _ = l.flush();
    }
    pub fn merge_json(&mut self, v: &Value) {
        self.evals += v["evals"].as_u64().unwrap_or(0);
        if let Some(a) = v["distinct"].as_array() {
            for x in a {
                if let Some(h) = x.as_u64() {
                    self.distinct.insert(h);
                }
            }
        }
        if let Some(m) = v["counters"].as_object() {
            for (k, x) in m {
                let n = x.as_u64().unwrap_or(0);
                if k.starts_with("max_") {
                    let e = self.counters.entry(k.clone()).or_insert(0);
                    if n > *e {
                        *e = n;
                    }
                } else {
                    *self.counters.entry(k.clone()).or_insert(0) += n;
                }
            }
        }
        if let Some(m) = v["sets"].as_object() {
            for (k, x) in m {
                let s = self.sets.entry(k.clone()).or_default();
                for e in x.as_array().into_iter().flatten() {
                    if let Some(e) = e.as_str() {
                        if s.len() < 20000 {
                            s.insert(e.to_string());
                        }
                    }
                }
            }
        }
        for s in v["samples"].as_array().into_iter().flatten() {
            if self.samples.len() < MAX_SAMPLES {
                self.samples.push(s.clone());
            }
        }
        for x in v["viols"].as_array().into_iter().flatten() {
            if self.viols.len() < MAX_VIOLS {
                self.viols.push(Viol {
                    what: x["what"].as_str().unwrap_or("").to_string(),
                    witness: x["witness"].clone(),
                });
            }
        }
        for x in v["known"].as_array().into_iter().flatten() {
            let id = x["id"].as_str().unwrap_or("?").to_string();
            let e = self.known.entry(id).or_insert((
                0,
                x["what"].as_str().unwrap_or("").to_string(),
                x["ex"].clone(),
            ));
            e.0 += x["n"].as_u64().unwrap_or(0);
        }
        for x in v["inconclusive"].as_array().into_iter().flatten() {
            if self.inconclusive.len() < 20 {
                self.inconclusive.push(x.as_str().unwrap_or("").to_string());
            }
        }
        for x in v["harness_errors"].as_array().into_iter().flatten() {
            self.harness_errors.push(x.as_str().unwrap_or("").to_string());
        }
    }
    pub fn merge(&mut self, o: Out) {
        let v = o.to_json();
        self.merge_json(&v);
    }
}

/// What happened to one child process.
#[derive(Debug)]
pub struct ChildEnd {
    pub shard: u64,
    pub status: Option<i32>,
    pub signal: Option<i32>,
    pub timed_out: bool,
    pub got_result: bool,
    pub stderr_tail: String,
    pub stdout_tail: String,
    pub args: Vec<String>,
}

pub struct ChildSpec {
    pub kind: String,
    pub shards: u64,
    pub extra: Vec<String>,
    pub timeout: Duration,
    pub parallel: usize,
    /// program to run (default: current exe)
    pub exe: Option<PathBuf>,
    /// extra environment; the text `{shard}` in a value is replaced by the shard number
    pub env: Vec<(String, String)>,
    /// arguments placed before the child arguments (for wrappers such as `cargo miri run ... --`)
    pub pre_args: Vec<String>,
    pub cwd: Option<PathBuf>,
    /// how much of stderr to keep per child
    pub stderr_keep: usize,
}

impl ChildSpec {
    pub fn new(kind: &str, shards: u64) -> Self {
        ChildSpec {
            kind: kind.to_string(),
            shards,
            extra: vec![],
            timeout: Duration::from_secs(600),
            parallel: ncpu(),
            exe: None,
            env: vec![],
            pre_args: vec![],
            cwd: None,
            stderr_keep: 4000,
        }
    }
    pub fn arg(mut self, k: &str, v: impl std::fmt::Display) -> Self {
        self.extra.push(format!("{k}={v}"));
        self
    }
    pub fn timeout(mut self, s: u64) -> Self {
        self.timeout = Duration::from_secs(s);
        self
    }
    pub fn parallel(mut self, n: usize) -> Self {
        self.parallel = n.max(1);
        self
    }
}

/// Factor by which wall-clock watchdog windows are stretched (set by the Miri / sanitizer
/// layers through VERIF_SLOW; 1 natively).
pub fn slow_factor() -> u64 {
    std::env::var("VERIF_SLOW").ok().and_then(|s| s.parse().ok()).unwrap_or(1).max(1)
}

pub fn ncpu() -> usize {
    std::thread::available_parallelism()
        .map(|n| n.get())
        .unwrap_or(4)
        .min(16)
}

fn tail(s: &str, n: usize) -> String {
    if s.len() <= n {
        s.to_string()
    } else {
        let mut i = s.len() - n;
        while !s.is_char_boundary(i) {
            i += 1;
        }
        s[i..].to_string()
    }
}

/// Run `spec.shards` children, `spec.parallel` at a time; merge their RESULT lines into
/// `out`; return how each one ended.
pub fn run_children(args: &Args, spec: &ChildSpec, out: &mut Out) -> Vec<ChildEnd> {
    let exe = spec
        .exe
        .clone()
        .unwrap_or_else(|| std::env::current_exe().expect("HARNESS: current_exe"));
    let next = Arc::new(AtomicUsize::new(0));
    let merged = Arc::new(Mutex::new((Out::new(), Vec::<ChildEnd>::new())));
    let nthreads = spec.parallel.min(spec.shards as usize).max(1);
    let mut hs = vec![];
    for _ in 0..nthreads {
        let next = next.clone();
        let merged = merged.clone();
        let exe = exe.clone();
        let kind = spec.kind.clone();
        let extra = spec.extra.clone();
        let env = spec.env.clone();
        let pre_args = spec.pre_args.clone();
        let cwd = spec.cwd.clone();
        let stderr_keep = spec.stderr_keep;
        let shards = spec.shards;
        let timeout = spec.timeout;
        let tier = args.tier;
        let seed = args.seed;
        hs.push(std::thread::spawn(move || loop {
            let k = next.fetch_add(1, Ordering::SeqCst) as u64;
            if k >= shards {
                break;
            }
            let mut argv: Vec<String> = vec![
                tier.name().into(),
                "--child".into(),
                kind.clone(),
                "--seed".into(),
                seed.to_string(),
                "--shard".into(),
                k.to_string(),
                "--nshards".into(),
                shards.to_string(),
            ];
            argv.extend(extra.iter().cloned());
            let mut cmd = Command::new(&exe);
            if let Some(d) = &cwd {
                cmd.current_dir(d);
            }
            cmd.args(&pre_args)
                .args(&argv)
                .stdin(Stdio::null())
                .stdout(Stdio::piped())
                .stderr(Stdio::piped());
            for (kk, v) in &env {
                cmd.env(kk, v.replace("{shard}", &k.to_string()));
            }
            let mut child = match cmd.spawn() {
                Ok(c) => c,
                Err(e) => {
                    let mut g = merged.lock().unwrap();
                    g.0.harness_errors.push(format!("spawn failed: {e}"));
                    continue;
                }
            };
            let mut so = child.stdout.take().unwrap();
            let mut se = child.stderr.take().unwrap();
            let t_out = std::thread::spawn(move || {
                let mut s = Vec::new();
                let _ = so.read_to_end(&mut s);
                String::from_utf8_lossy(&s).into_owned()
            });
            let t_err = std::thread::spawn(move || {
                let mut s = Vec::new();
                let _ = se.read_to_end(&mut s);
                String::from_utf8_lossy(&s).into_owned()
            });
            let t0 = Instant::now();
            let mut timed_out = false;
            let status = loop {
                match child.try_wait() {
                    Ok(Some(st)) => break Some(st),
                    Ok(None) => {
                        if t0.elapsed() > timeout {
                            let _ = child.kill();
                            timed_out = true;
                            break child.wait().ok();
                        }
                        let el = t0.elapsed();
                        std::thread::sleep(if el < Duration::from_millis(20) {
                            Duration::from_micros(300)
                        } else if el < Duration::from_secs(1) {
                            Duration::from_millis(2)
                        } else {
                            Duration::from_millis(20)
                        });
                    }
                    Err(_) => break None,
                }
            };
            let stdout = t_out.join().unwrap_or_default();
            let stderr = t_err.join().unwrap_or_default();
            let mut got = false;
            let mut local = Out::new();
            for line in stdout.lines() {
                if let Some(js) = line.strip_prefix("RESULT ") {
                    match serde_json::from_str::<Value>(js) {
                        Ok(v) => {
                            local.merge_json(&v);
                            got = true;
                        }
                        Err(e) => local
                            .harness_errors
                            .push(format!("bad RESULT line from shard {k}: {e}")),
                    }
                }
            }
            #[cfg(unix)]
            let signal = {
                use std::os::unix::process::ExitStatusExt;
                status.and_then(|s| s.signal())
            };
            #[cfg(not(unix))]
            let signal = None;
            let end = ChildEnd {
                shard: k,
                status: status.and_then(|s| s.code()),
                signal,
                timed_out,
                got_result: got,
                stderr_tail: tail(&stderr, stderr_keep),
                stdout_tail: tail(
                    &stdout
                        .lines()
                        .filter(|l| !l.starts_with("RESULT "))
                        .collect::<Vec<_>>()
                        .join("\n"),
                    2000,
                ),
                args: argv,
            };
            let mut g = merged.lock().unwrap();
            g.0.merge(local);
            g.1.push(end);
        }));
    }
    for h in hs {
        let _ = h.join();
    }
    let (o, ends) = Arc::try_unwrap(merged)
        .ok()
        .expect("HARNESS: merged still shared")
        .into_inner()
        .unwrap();
    out.merge(o);
    ends
}

/// Default classification of child ends: a child that died (non-zero, signal) is a
/// violation witness unless stderr says HARNESS:, a timeout is inconclusive.
pub fn classify_ends(ends: &[ChildEnd], out: &mut Out, crash_is_violation: bool) {
    for e in ends {
        if e.timed_out {
            out.inconclusive(format!(
                "child shard {} killed by the harness watchdog (args {:?}); stderr tail: {}",
                e.shard,
                e.args,
                tail(&e.stderr_tail, 300)
            ));
            continue;
        }
        let ok = e.status == Some(0);
        if ok && e.got_result {
            continue;
        }
        if e.stderr_tail.contains("HARNESS:") {
            out.harness_errors.push(format!(
                "shard {}: {}",
                e.shard,
                tail(&e.stderr_tail, 600)
            ));
            continue;
        }
        if ok && !e.got_result {
            out.harness_errors
                .push(format!("shard {} exited 0 without a RESULT line", e.shard));
            continue;
        }
        if crash_is_violation {
            out.violation(
                format!(
                    "child process died (status {:?}, signal {:?})",
                    e.status, e.signal
                ),
                json!({"args": e.args, "stderr_tail": e.stderr_tail, "stdout_tail": e.stdout_tail}),
            );
        } else {
            out.harness_errors.push(format!(
                "shard {} died (status {:?}, signal {:?}): {}",
                e.shard,
                e.status,
                e.signal,
                tail(&e.stderr_tail, 600)
            ));
        }
    }
}

pub struct Finish<'a> {
    pub id: &'a str,
    pub args: &'a Args,
    pub t0: Instant,
    pub rule: &'a str,
    pub assumptions: Vec<String>,
    /// minimum evaluations / distinct below which the run is "observed too little" (exit 2)
    pub min_evals: u64,
    pub min_distinct: u64,
    pub exhaustive: bool,
    pub extra: Map<String, Value>,
}

/// Write evidence + replay files, print verdict lines, exit.
pub fn finish(f: Finish<'_>, out: Out) -> ! {
    let root = verif_root();
    let evdir = root.join("evidence");
    let _ = std::fs::create_dir_all(evdir.join("replay"));
    let wall = f.t0.elapsed().as_secs_f64();

    // replay files for violations
    let mut viol_lines = vec![];
    for (n, v) in out.viols.iter().enumerate() {
        let p = evdir
            .join("replay")
            .join(format!("{}-{}-{}.json", f.id, f.args.seed, n));
        let doc = json!({
            "property": f.id, "seed": f.args.seed, "tier": f.args.tier.name(),
            "what": v.what, "witness": v.witness,
        });
        let _ = std::fs::write(&p, serde_json::to_string_pretty(&doc).unwrap());
        viol_lines.push((v.what.clone(), p));
    }

    let mut cov = Map::new();
    cov.insert("evaluations".into(), json!(out.evals));
    cov.insert("distinct_nontrivial".into(), json!(out.distinct.len() as u64));
    cov.insert("rule".into(), json!(f.rule));
    cov.insert("samples".into(), json!(out.samples));
    if f.exhaustive {
        cov.insert("exhaustive".into(), json!(true));
    }
    cov.insert("counters".into(), json!(out.counters));
    let mut sets = Map::new();
    for (k, s) in &out.sets {
        let v: Vec<&String> = s.iter().take(64).collect();
        sets.insert(k.clone(), json!({"count": s.len(), "first": v}));
    }
    cov.insert("observed_sets".into(), Value::Object(sets));
    cov.insert(
        "known_findings_matched".into(),
        json!(out
            .known
            .iter()
            .map(|(k, (n, w, ex))| json!({"id": k, "count": n, "what": w, "example": ex}))
            .collect::<Vec<_>>()),
    );
    cov.insert("inconclusive".into(), json!(out.inconclusive));
    cov.insert("inconclusive_count".into(), json!(out.counters.get("inconclusive").copied().unwrap_or(0)));
    for (k, v) in f.extra {
        cov.insert(k, v);
    }
    let ev = json!({
        "property_id": f.id,
        "tier": f.args.tier.name(),
        "seed": f.args.seed,
        "level": "exploration",
        "coverage": Value::Object(cov),
        "assumptions": f.assumptions,
        "wall_s": wall,
        "violations": out.viols.len(),
    });
    let evpath = evdir.join(format!("{}.json", f.id));
    if let Err(e) = std::fs::write(&evpath, serde_json::to_string_pretty(&ev).unwrap()) {
        eprintln!("HARNESS: cannot write evidence {evpath:?}: {e}");
        std::process::exit(2);
    }

    for (id, (n, what, _)) in &out.known {
        println!("KNOWN-FINDING: property={} {} [{}; matched {} times this run]", f.id, what, id, n);
    }
    for w in &out.inconclusive {
        println!("INCONCLUSIVE property={} {}", f.id, w);
    }
    println!(
        "OBSERVED property={} tier={} seed={} evaluations={} distinct_nontrivial={} wall_s={:.1} counters={}",
        f.id,
        f.args.tier.name(),
        f.args.seed,
        out.evals,
        out.distinct.len(),
        wall,
        serde_json::to_string(&out.counters).unwrap()
    );
    if !viol_lines.is_empty() {
        for (what, p) in &viol_lines {
            println!("VIOLATION property={} replay={} :: {}", f.id, p.display(), what);
        }
        std::process::exit(1);
    }
    if !out.harness_errors.is_empty() {
        for e in &out.harness_errors {
            eprintln!("HARNESS-ERROR property={} {}", f.id, e);
        }
        std::process::exit(2);
    }
    if out.evals < f.min_evals || (out.distinct.len() as u64) < f.min_distinct.max(2) {
        eprintln!(
            "TOO-LITTLE property={} observed evaluations={} distinct={} (minimum {} / {})",
            f.id,
            out.evals,
            out.distinct.len(),
            f.min_evals,
            f.min_distinct
        );
        std::process::exit(2);
    }
    println!("HELD property={} on everything explored", f.id);
    std::process::exit(0)
}

/// Install a panic hook that prints the panic (and a context string supplied by the
/// check through `set_panic_context`) in a recognisable form, then lets the default
/// behaviour continue.
pub fn install_panic_context_hook() {
    let prev = std::panic::take_hook();
    std::panic::set_hook(Box::new(move |info| {
        let ctx = PANIC_CTX.with(|c| c.borrow().clone());
        eprintln!("PANIC-CONTEXT {ctx}");
        prev(info);
    }));
}
thread_local! {
    static PANIC_CTX: std::cell::RefCell<String> = const { std::cell::RefCell::new(String::new()) };
}
pub fn set_panic_context(s: String) {
    PANIC_CTX.with(|c| *c.borrow_mut() = s);
}

/// Thorough-tier layer: the given child workloads once more on a build of the same binary with
/// the repository's debug assertions live (`VERIF_<ID>_DBG_BIN`, built by /verif/check with the
/// `dbgassert` profile).  The same oracles run inside; a debug assertion of the repository that
/// fails shows as a panic / process death and is judged like one.  No-op when the variable is unset.
pub fn dbg_build_layer(id: &str, args: &Args, specs: Vec<ChildSpec>, out: &mut Out, extra: &mut Map<String, Value>) {
    let Ok(p) = std::env::var(format!("VERIF_{id}_DBG_BIN")) else { return };
    if p.is_empty() {
        return;
    }
    let mut dbg = Out::new();
    for spec in specs {
        let mut spec = spec.arg("dbg", 1);
        spec.exe = Some(std::path::PathBuf::from(&p));
        let ends = run_children(args, &spec, &mut dbg);
        classify_ends(&ends, &mut dbg, true);
    }
    if !dbg.sets.get("built_with_debug_assertions").map(|s| s.contains("true") && s.len() == 1).unwrap_or(false) {
        out.harness_errors.push(format!("VERIF_{id}_DBG_BIN={p} is not a debug-assertions build (or produced nothing)"));
    }
    extra.insert("debug_assertion_build".into(), json!({"binary": p, "evaluations": dbg.evals, "distinct": dbg.distinct.len(), "counters": dbg.counters}));
    let v = dbg.to_json();
    let evals = out.evals + dbg.evals;
    out.merge_json(&json!({"viols": v["viols"], "known": v["known"], "inconclusive": v["inconclusive"], "harness_errors": v["harness_errors"]}));
    out.evals = evals;
    for h in dbg.distinct {
        out.distinct.insert(h ^ 0x0dbd_0dbd);
    }
}

/// Run `f` catching panics; returns Err(message).
pub fn catch<R>(f: impl FnOnce() -> R) -> Result<R, String> {
    match std::panic::catch_unwind(std::panic::AssertUnwindSafe(f)) {
        Ok(r) => Ok(r),
        Err(p) => Err(panic_msg(&p)),
    }
}
pub fn panic_msg(p: &Box<dyn std::any::Any + Send>) -> String {
    if let Some(s) = p.downcast_ref::<&str>() {
        s.to_string()
    } else if let Some(s) = p.downcast_ref::<String>() {
        s.clone()
    } else {
        "<non-string panic payload>".to_string()
    }
}

/// Silence the default panic message printing (for checks that provoke panics on purpose).
pub fn quiet_panics() {
    std::panic::set_hook(Box::new(|_| {}));
}
