//! Worker threads driven by a coordinator: sequential multi-thread histories.
use std::sync::mpsc::{channel, Sender};
use std::thread::JoinHandle;

type Job = Box<dyn FnOnce() + Send + 'static>;

pub struct Workers {
    tx: Vec<Option<Sender<Job>>>,
    hs: Vec<Option<JoinHandle<()>>>,
}

impl Workers {
    pub fn new(n: usize) -> Self {
        let mut tx = vec![];
        let mut hs = vec![];
        for i in 0..n {
            let (t, r) = channel::<Job>();
            let h = std::thread::Builder::new()
                .name(format!("w{i}"))
                .spawn(move || {
                    while let Ok(job) = r.recv() {
                        job();
                    }
                })
                .expect("HARNESS: spawn worker");
            tx.push(Some(t));
            hs.push(Some(h));
        }
        Workers { tx, hs }
    }
    pub fn len(&self) -> usize {
        self.tx.len()
    }
    /// Run `f` on worker `t`, wait for its result.  A panic inside `f` is returned as Err.
    pub fn run<R: Send + 'static>(
        &self,
        t: usize,
        f: impl FnOnce() -> R + Send + 'static,
    ) -> Result<R, String> {
        let (rt, rr) = channel();
        let job: Job = Box::new(move || {
            let r = crate::run::catch(f);
            let _ = rt.send(r);
        });
        self.tx[t]
            .as_ref()
            .expect("HARNESS: worker stopped")
            .send(job)
            .expect("HARNESS: worker gone");
        rr.recv().expect("HARNESS: worker died")
    }
    /// Stop worker `t` (its thread-locals are destroyed) and join it.
    pub fn stop(&mut self, t: usize) {
        self.tx[t] = None;
        if let Some(h) = self.hs[t].take() {
            let _ = h.join();
        }
    }
}
impl Drop for Workers {
    fn drop(&mut self) {
        for t in 0..self.tx.len() {
            self.stop(t);
        }
    }
}
