//! Directive AST, grammar-driven generator and the independent reference semantics for
//! filter directives (C11): "the most specific matching directive wins" for the static part,
//! "every span-scoped directive raises the level while a matching span is entered" for the
//! dynamic part.  Nothing in here parses a directive string or calls tracing: the generator
//! builds the AST and *renders* it, the evaluator works on the AST.
//!
//! Levels are ranks: 0 = off, 1 = error .. 5 = trace; a metadata level is 1..=5 and is
//! allowed by a directive iff `meta_level <= directive_level`.
use crate::rng::Rng;

pub const LEVEL_NAMES: [&str; 6] = ["off", "error", "warn", "info", "debug", "trace"];

/// Three-valued answer of the reference: where the documentation leaves a point open the
/// evaluator says `Open` and the monitor does not judge.
#[derive(Clone, Copy, Debug, PartialEq, Eq)]
pub enum Tri {
    No,
    Yes,
    Open,
}
impl Tri {
    pub fn of(b: bool) -> Tri {
        if b {
            Tri::Yes
        } else {
            Tri::No
        }
    }
}

/// value pattern of a `{field=value}` matcher, typed the way the documentation types it:
/// bool / integer / float literals match only that value, anything else matches the
/// `Debug` output.
#[derive(Clone, Debug, PartialEq)]
pub enum Pat {
    Bool(bool),
    U64(u64),
    /// only negative values (a non-negative integer literal is a u64 literal)
    I64(i64),
    F64(f64),
    /// the literal `NaN`: matches any NaN `f64` value (and nothing else)
    NaN,
    /// not a literal: compared with the `Debug` output (anchored; metacharacter-free)
    Text(String),
}

#[derive(Clone, Debug, PartialEq)]
pub struct FieldM {
    pub name: String,
    /// (typed pattern, text as written)
    pub pat: Option<(Pat, String)>,
}

#[derive(Clone, Debug, PartialEq)]
pub struct Dir {
    pub target: Option<String>,
    pub span: Option<String>,
    pub fields: Vec<FieldM>,
    /// None = level omitted (documented as equivalent to `=trace`)
    pub level: Option<usize>,
    /// level as written (random case name or digit); "" when omitted
    pub level_text: String,
}

pub fn level_like(s: &str) -> bool {
    let l = s.to_ascii_lowercase();
    LEVEL_NAMES.contains(&l.as_str()) || matches!(s, "0" | "1" | "2" | "3" | "4" | "5")
}

impl Dir {
    pub fn eff_level(&self) -> usize {
        self.level.unwrap_or(5)
    }
    pub fn has_brackets(&self) -> bool {
        self.span.is_some() || !self.fields.is_empty()
    }
    /// contributes to the static (cacheable) part: no span name, no field *values*
    pub fn is_static(&self) -> bool {
        self.span.is_none() && self.fields.iter().all(|f| f.pat.is_none())
    }
    /// span-scoped: names a span or a field
    pub fn is_dynamic(&self) -> bool {
        self.has_brackets()
    }
    /// F12 class: the target is spelled like a level name or a digit 0-5
    pub fn level_like_target(&self) -> bool {
        self.target.as_deref().map(level_like).unwrap_or(false)
    }
    /// inside the grammar `Targets` documents: `target=level`, bare level, bare target,
    /// `target[{field}]=level`
    pub fn in_targets_grammar(&self) -> bool {
        self.span.is_none()
            && self.fields.len() <= 1
            && self.fields.iter().all(|f| f.pat.is_none())
            && (self.fields.is_empty() || self.level.is_some())
    }
    pub fn render(&self) -> String {
        let mut s = String::new();
        if let Some(t) = &self.target {
            s.push_str(t);
        }
        if self.has_brackets() {
            s.push('[');
            if let Some(n) = &self.span {
                s.push_str(n);
            }
            if !self.fields.is_empty() {
                s.push('{');
                for (i, f) in self.fields.iter().enumerate() {
                    if i > 0 {
                        s.push(',');
                    }
                    s.push_str(&f.name);
                    if let Some((_, txt)) = &f.pat {
                        s.push('=');
                        s.push_str(txt);
                    }
                }
                s.push('}');
            }
            s.push(']');
        }
        if self.level.is_some() {
            if self.target.is_some() || self.has_brackets() {
                s.push('=');
            }
            s.push_str(&self.level_text);
        }
        s
    }
    /// identity under which a later directive replaces an earlier one
    pub fn key(&self, f12_global: bool) -> String {
        let t = if f12_global && self.level_like_target() {
            ""
        } else {
            self.target.as_deref().unwrap_or("")
        };
        let mut k = format!("{}|{}|", t, self.span.as_deref().unwrap_or("\u{1}"));
        for f in &self.fields {
            k.push_str(&f.name);
            match &f.pat {
                None => {}
                Some((Pat::Bool(b), _)) => k.push_str(&format!("=b{b}")),
                Some((Pat::U64(b), _)) => k.push_str(&format!("=u{b}")),
                Some((Pat::I64(b), _)) => k.push_str(&format!("=i{b}")),
                Some((Pat::F64(b), _)) => k.push_str(&format!("=f{:x}", b.to_bits())),
                Some((Pat::NaN, _)) => k.push_str("=fNaN"),
                Some((Pat::Text(b), _)) => k.push_str(&format!("=t{b}")),
            }
            k.push(',');
        }
        k
    }
}

pub fn render_set(dirs: &[Dir]) -> String {
    dirs.iter().map(|d| d.render()).collect::<Vec<_>>().join(",")
}

/// a recorded field value
#[derive(Clone, Debug, PartialEq)]
pub enum Val {
    Empty,
    Bool(bool),
    U64(u64),
    I64(i64),
    F64(f64),
    /// a `&str` value (its `Debug` output is the quoted, escaped string)
    Str(String),
    /// a value recorded through its `Debug`/`Display` implementation whose output is the string
    Dbg(String),
}

/// alternative matcher semantics the monitor can try as an *explanation* of a divergence:
/// `str_raw` is a reading the property leaves open (accepted), `dbg_prefix` a repaired defect
/// whose signature stays armed (see c11.rs)
#[derive(Clone, Copy, Debug, Default, PartialEq, Eq)]
pub struct Quirks {
    /// regex mode: a `&str` value is compared raw instead of through its `Debug` output
    pub str_raw: bool,
    /// literal mode: a value whose `Debug` output is a proper prefix of the pattern matches
    pub dbg_prefix: bool,
}

fn dbg_of_str(s: &str) -> String {
    format!("{s:?}")
}

/// does the recorded value satisfy the pattern (documentation semantics)
pub fn pat_matches(p: &Pat, v: &Val, regex: bool, q: Quirks) -> Tri {
    let text_of = |v: &Val| -> Option<String> {
        match v {
            Val::Str(s) => Some(s.clone()),
            Val::Dbg(s) => Some(s.clone()),
            _ => None,
        }
    };
    match (p, v) {
        (_, Val::Empty) => Tri::No,
        (Pat::Bool(b), Val::Bool(x)) => Tri::of(b == x),
        (Pat::Bool(b), other) => match text_of(other) {
            Some(t) if t == b.to_string() => Tri::Open,
            _ => Tri::No,
        },
        (Pat::U64(n), Val::U64(x)) => Tri::of(n == x),
        (Pat::U64(n), Val::I64(x)) => Tri::of(*x >= 0 && *x as u64 == *n),
        (Pat::U64(n), Val::F64(x)) => {
            if *x == *n as f64 {
                Tri::Open
            } else {
                Tri::No
            }
        }
        (Pat::U64(n), other) => match text_of(other) {
            Some(t) if t == n.to_string() => Tri::Open,
            _ => Tri::No,
        },
        (Pat::I64(n), Val::I64(x)) => Tri::of(n == x),
        (Pat::I64(n), Val::U64(x)) => Tri::of(*n >= 0 && *n as u64 == *x),
        (Pat::I64(n), Val::F64(x)) => {
            if *x == *n as f64 {
                Tri::Open
            } else {
                Tri::No
            }
        }
        (Pat::I64(n), other) => match text_of(other) {
            Some(t) if t == n.to_string() => Tri::Open,
            _ => Tri::No,
        },
        (Pat::NaN, Val::F64(x)) => Tri::of(x.is_nan()),
        (Pat::NaN, _) => Tri::No,
        (Pat::F64(n), Val::F64(x)) => {
            if n == x {
                Tri::Yes
            } else if (n - x).abs() < 1e-9 {
                Tri::Open
            } else {
                Tri::No
            }
        }
        (Pat::F64(n), Val::U64(x)) => {
            if *n == *x as f64 {
                Tri::Open
            } else {
                Tri::No
            }
        }
        (Pat::F64(n), Val::I64(x)) => {
            if *n == *x as f64 {
                Tri::Open
            } else {
                Tri::No
            }
        }
        (Pat::F64(n), other) => match text_of(other) {
            Some(t) if t.parse::<f64>().map(|y| y == *n).unwrap_or(false) => Tri::Open,
            _ => Tri::No,
        },
        (Pat::Text(t), Val::Str(s)) => {
            let dbg = dbg_of_str(s);
            let doc = *t == dbg;
            if regex && q.str_raw {
                return Tri::of(t == s);
            }
            if !regex && q.dbg_prefix {
                return Tri::of(t.starts_with(&dbg));
            }
            Tri::of(doc)
        }
        (Pat::Text(t), Val::Dbg(o)) => {
            if !regex && q.dbg_prefix {
                return Tri::of(t.starts_with(o.as_str()));
            }
            Tri::of(t == o)
        }
        // a non-literal pattern against a bool / number: their Debug output is a literal,
        // the pattern (by construction) is not
        (Pat::Text(_), _) => Tri::No,
    }
}

/// what a filter is asked about
#[derive(Clone, Debug, PartialEq, Eq, Hash)]
pub struct MetaDesc {
    pub target: String,
    pub name: String,
    /// 1..=5
    pub level: usize,
    pub is_span: bool,
    pub fields: Vec<String>,
}

#[derive(Clone, Copy, Debug, PartialEq, Eq)]
pub enum Interp {
    /// the documented reading: a level-like target is a target
    Documented,
    /// F12: a level-like target is dropped (the directive becomes target-less)
    LevelLikeTargetIsGlobal,
}

#[derive(Clone, Debug)]
pub struct StaticAnswer {
    pub dec: Tri,
    /// how many static directives matched (target prefix + fields)
    pub candidates: usize,
    /// index (into the directive list) of the deciding directive, if unique
    pub winner: Option<usize>,
    pub why_open: &'static str,
}

fn static_eval_reading(
    dirs: &[Dir],
    m: &MetaDesc,
    interp: Interp,
    fields_bind_spans: bool,
) -> StaticAnswer {
    let f12 = interp == Interp::LevelLikeTargetIsGlobal;
    // replace-on-duplicate: the last directive with the same key stands
    let mut live: Vec<usize> = vec![];
    let mut keys: Vec<String> = vec![];
    for (i, d) in dirs.iter().enumerate() {
        if !d.is_static() {
            continue;
        }
        let k = d.key(f12);
        if let Some(p) = keys.iter().position(|x| *x == k) {
            live[p] = i;
        } else {
            keys.push(k);
            live.push(i);
        }
    }
    let mut best: Option<(usize, usize)> = None;
    let mut at_best: Vec<usize> = vec![];
    let mut candidates = 0;
    for &i in &live {
        let d = &dirs[i];
        let t = if f12 && d.level_like_target() {
            ""
        } else {
            d.target.as_deref().unwrap_or("")
        };
        if !m.target.starts_with(t) {
            continue;
        }
        if (!m.is_span || fields_bind_spans)
            && !d.fields.iter().all(|f| m.fields.iter().any(|x| *x == f.name))
        {
            continue;
        }
        candidates += 1;
        let spec = (t.len(), d.fields.len());
        match best {
            Some(b) if spec < b => {}
            Some(b) if spec == b => at_best.push(i),
            _ => {
                best = Some(spec);
                at_best = vec![i];
            }
        }
    }
    if at_best.is_empty() {
        return StaticAnswer {
            dec: Tri::No,
            candidates,
            winner: None,
            why_open: "",
        };
    }
    let decs: Vec<bool> = at_best.iter().map(|&i| m.level <= dirs[i].eff_level()).collect();
    if decs.iter().all(|&d| d == decs[0]) {
        StaticAnswer {
            dec: Tri::of(decs[0]),
            candidates,
            winner: if at_best.len() == 1 { Some(at_best[0]) } else { None },
            why_open: "",
        }
    } else {
        StaticAnswer {
            dec: Tri::Open,
            candidates,
            winner: None,
            why_open: "equally specific directives with different field lists disagree",
        }
    }
}

/// Static decision: among the static directives whose target is a prefix of the metadata's
/// target and whose field names the metadata has, the longest target wins, then the one
/// with more field constraints; of duplicates the last stands; its level decides; nothing
/// matches => disabled.  Whether a field-name list also constrains *span* metadata is not
/// settled by the documentation: when the two readings differ the answer is Open.
pub fn static_eval(dirs: &[Dir], m: &MetaDesc, interp: Interp) -> StaticAnswer {
    let a = static_eval_reading(dirs, m, interp, true);
    if !m.is_span {
        return a;
    }
    let b = static_eval_reading(dirs, m, interp, false);
    if a.dec == b.dec {
        a
    } else {
        StaticAnswer {
            dec: Tri::Open,
            candidates: a.candidates.max(b.candidates),
            winner: None,
            why_open: "field-name list on span metadata (binds / does not bind)",
        }
    }
}

/// the span-scoped directives that stand after replace-on-duplicate
pub fn live_dynamics(dirs: &[Dir]) -> Vec<usize> {
    let mut live: Vec<usize> = vec![];
    let mut keys: Vec<String> = vec![];
    for (i, d) in dirs.iter().enumerate() {
        if !d.is_dynamic() {
            continue;
        }
        let k = d.key(false);
        if let Some(p) = keys.iter().position(|x| *x == k) {
            live[p] = i;
        } else {
            keys.push(k);
            live.push(i);
        }
    }
    live
}

/// does the directive select this span callsite (target prefix, span name, field names)
pub fn dir_cares(d: &Dir, m: &MetaDesc) -> bool {
    m.is_span
        && m.target.starts_with(d.target.as_deref().unwrap_or(""))
        && d.span.as_deref().map(|n| n == m.name).unwrap_or(true)
        && d.fields.iter().all(|f| m.fields.iter().any(|x| *x == f.name))
}

/// does this span instance (callsite + recorded values) match the directive
pub fn dir_matches(d: &Dir, m: &MetaDesc, vals: &[Val], regex: bool, q: Quirks) -> Tri {
    if !dir_cares(d, m) {
        return Tri::No;
    }
    let mut open = false;
    for f in &d.fields {
        if let Some((p, _)) = &f.pat {
            let idx = m.fields.iter().position(|x| *x == f.name).unwrap();
            match pat_matches(p, vals.get(idx).unwrap_or(&Val::Empty), regex, q) {
                Tri::No => return Tri::No,
                Tri::Open => open = true,
                Tri::Yes => {}
            }
        }
    }
    if open {
        Tri::Open
    } else {
        Tri::Yes
    }
}

/// level a span instance raises to while entered: (definitely at least, possibly up to)
pub fn span_raise(dirs: &[Dir], live: &[usize], m: &MetaDesc, vals: &[Val], regex: bool, q: Quirks) -> (usize, usize) {
    let mut lo = 0;
    let mut hi = 0;
    for &i in live {
        match dir_matches(&dirs[i], m, vals, regex, q) {
            Tri::Yes => {
                lo = lo.max(dirs[i].eff_level());
                hi = hi.max(dirs[i].eff_level());
            }
            Tri::Open => hi = hi.max(dirs[i].eff_level()),
            Tri::No => {}
        }
    }
    (lo, hi)
}

// ---------------------------------------------------------------------------------------
// generator

pub const TARGET_VOCAB: [&str; 14] = [
    "app",
    "app::db",
    "app::db::pool",
    "application",
    "application::x",
    "a",
    "a::b",
    "a::bc",
    "a::b::c",
    "net-io",
    "net",
    "x_y",
    "ap",
    "app::d",
];
pub const LEVEL_LIKE_TARGETS: [&str; 8] = ["warn", "WARN", "Info", "off", "trace", "3", "0", "5"];
pub const SPAN_NAMES: [&str; 3] = ["sp", "spx", "other"];
pub const FIELD_NAMES: [&str; 3] = ["f", "g", "h"];
pub const TEXTS: [&str; 10] = [
    "ab", "abc", "abcd", "Ab", "bob", "\"bob\"", "\"ab\"", "x-1", "a:b", "zz_9",
];

pub fn level_text(rng: &mut Rng, l: usize) -> String {
    if rng.chance(1, 4) {
        return l.to_string();
    }
    let name = LEVEL_NAMES[l];
    match rng.below(4) {
        0 => name.to_string(),
        1 => name.to_ascii_uppercase(),
        _ => name
            .chars()
            .map(|c| if rng.bool() { c.to_ascii_uppercase() } else { c })
            .collect(),
    }
}

fn gen_level(rng: &mut Rng) -> usize {
    [0, 1, 2, 2, 3, 3, 3, 4, 4, 5][rng.usize(10)]
}

pub fn gen_pat(rng: &mut Rng, exotic_floats: bool) -> (Pat, String) {
    match rng.below(12) {
        0 | 1 => {
            let b = rng.bool();
            (Pat::Bool(b), b.to_string())
        }
        2 | 3 | 4 => {
            let n = *rng.pick(&[0u64, 1, 2, 7, 42, u64::MAX]);
            (Pat::U64(n), n.to_string())
        }
        5 => {
            let n = *rng.pick(&[-1i64, -7, i64::MIN]);
            (Pat::I64(n), n.to_string())
        }
        6 | 7 => {
            let mut c: Vec<(&str, f64)> =
                vec![("0.5", 0.5), ("1.5", 1.5), ("-2.25", -2.25), ("1.50", 1.5), ("2.5e-1", 0.25)];
            if exotic_floats {
                c.push(("2.0", 2.0));
                c.push(("1e3", 1000.0));
                c.push(("-7.0", -7.0));
            }
            if rng.chance(1, 6) {
                return (Pat::NaN, "NaN".to_string());
            }
            let (t, v) = *rng.pick(&c);
            (Pat::F64(v), t.to_string())
        }
        _ => {
            let t = *rng.pick(&TEXTS);
            (Pat::Text(t.to_string()), t.to_string())
        }
    }
}

#[derive(Clone, Copy, Debug, Default)]
pub struct GenOpts {
    /// allow `[span]`, `{field=value}` (EnvFilter-only grammar)
    pub dynamic: bool,
    /// allow a level-like target (F12 class)
    pub level_like: bool,
    /// allow float literals with an integral value (`2.0`, `1e3`)
    pub exotic_floats: bool,
    /// allow several fields in one directive (only expressible through `Directive::from_str`)
    pub multi_field: bool,
}

pub fn gen_dir(rng: &mut Rng, o: GenOpts) -> Dir {
    let lvl = gen_level(rng);
    let mk = |rng: &mut Rng, target: Option<String>, span: Option<String>, fields: Vec<FieldM>, omit_level: bool| {
        let level = if omit_level { None } else { Some(lvl) };
        let level_text = if omit_level { String::new() } else { level_text(rng, lvl) };
        Dir {
            target,
            span,
            fields,
            level,
            level_text,
        }
    };
    let target = |rng: &mut Rng| -> String {
        if o.level_like && rng.chance(1, 3) {
            rng.pick(&LEVEL_LIKE_TARGETS).to_string()
        } else {
            rng.pick(&TARGET_VOCAB).to_string()
        }
    };
    let w: [u32; 6] = [10, 36, 8, 10, if o.dynamic { 12 } else { 0 }, if o.dynamic { 18 } else { 0 }];
    match rng.weighted(&w) {
        0 => mk(rng, None, None, vec![], false),
        1 => {
            let t = target(rng);
            mk(rng, Some(t), None, vec![], false)
        }
        2 => {
            // bare target; a level-like one would simply *be* a bare level
            let t = rng.pick(&TARGET_VOCAB).to_string();
            mk(rng, Some(t), None, vec![], true)
        }
        3 => {
            // field-name list
            let t = if rng.chance(2, 3) { Some(target(rng)) } else { None };
            let mut fields = vec![FieldM {
                name: rng.pick(&FIELD_NAMES).to_string(),
                pat: None,
            }];
            if o.multi_field && rng.chance(1, 2) {
                let other: Vec<&str> = FIELD_NAMES.iter().copied().filter(|n| *n != fields[0].name).collect();
                fields.push(FieldM {
                    name: rng.pick(&other).to_string(),
                    pat: None,
                });
            }
            let omit = o.dynamic && rng.chance(1, 6);
            mk(rng, t, None, fields, omit)
        }
        4 => {
            // span name only
            let t = if rng.chance(1, 2) { Some(target(rng)) } else { None };
            let n = rng.pick(&SPAN_NAMES).to_string();
            let omit = rng.chance(1, 5);
            mk(rng, t, Some(n), vec![], omit)
        }
        _ => {
            // span and/or fields with values
            let t = if rng.chance(2, 5) { Some(target(rng)) } else { None };
            let n = if rng.chance(3, 5) { Some(rng.pick(&SPAN_NAMES).to_string()) } else { None };
            let nf = if o.multi_field && rng.chance(1, 2) { 2 } else { 1 };
            let mut fields = vec![];
            let first = rng.usize(2);
            for k in 0..nf {
                let name = FIELD_NAMES[(first + k) % 2].to_string();
                let pat = if rng.chance(4, 5) { Some(gen_pat(rng, o.exotic_floats)) } else { None };
                fields.push(FieldM { name, pat });
            }
            let omit = rng.chance(1, 6);
            mk(rng, t, n, fields, omit)
        }
    }
}

/// a directive set: random directives, then duplicates (same key, new level / spelling) and
/// conflicting entries, in random order
pub fn gen_set(rng: &mut Rng, o: GenOpts) -> Vec<Dir> {
    // one set in 25 is long (a built-in default list with user overrides appended): more than
    // 32 entries, a quarter of them duplicates of an earlier key - whatever sorts or merges the
    // whole list at once leaves its small-input paths
    let long = rng.chance(1, 25);
    let n = match rng.below(20) {
        _ if long => 33 + rng.usize(40),
        0 => 1,
        1..=7 => 2 + rng.usize(3),
        8..=16 => 4 + rng.usize(5),
        _ => 9 + rng.usize(6),
    };
    let mut v: Vec<Dir> = vec![];
    for _ in 0..n {
        if !v.is_empty() && (rng.chance(1, 6) || (long && rng.chance(1, 5))) {
            // duplicate / conflicting entry
            let mut d = rng.pick(&v).clone();
            let lvl = gen_level(rng);
            if d.level.is_some() || rng.bool() {
                d.level = Some(lvl);
                d.level_text = level_text(rng, lvl);
            }
            // half of the copies of a directive with a value pattern differ from the original
            // ONLY in that pattern (another value or another kind of literal): two distinct
            // directives that an ordering / equality of matchers must keep apart
            let with_pat: Vec<usize> = (0..d.fields.len()).filter(|&i| d.fields[i].pat.is_some()).collect();
            if !with_pat.is_empty() && rng.bool() {
                let i = *rng.pick(&with_pat);
                let old = d.fields[i].pat.clone();
                // (a float literal and `NaN` are the closest neighbours among the kinds)
                match &old {
                    Some((Pat::F64(_), _)) if rng.bool() => d.fields[i].pat = Some((Pat::NaN, "NaN".to_string())),
                    Some((Pat::NaN, _)) if rng.bool() => d.fields[i].pat = Some((Pat::F64(0.5), "0.5".to_string())),
                    _ => {
                        for _ in 0..8 {
                            let p = gen_pat(rng, false);
                            if Some(&p) != old.as_ref() {
                                d.fields[i].pat = Some(p);
                                break;
                            }
                        }
                    }
                }
            }
            v.push(d);
        } else {
            v.push(gen_dir(rng, o));
        }
    }
    rng.shuffle(&mut v);
    v
}
