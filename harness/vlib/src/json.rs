//! Independent strict RFC 8259 parser: rejects duplicate keys, trailing data, raw control
//! characters, invalid escapes, lone surrogates, malformed numbers.  Numbers keep their text.

#[derive(Clone, Debug, PartialEq)]
pub enum J {
    Null,
    Bool(bool),
    /// number, exactly as written
    Num(String),
    Str(String),
    Arr(Vec<J>),
    /// insertion-ordered
    Obj(Vec<(String, J)>),
}

impl J {
    pub fn get(&self, k: &str) -> Option<&J> {
        match self {
            J::Obj(v) => v.iter().find(|(kk, _)| kk == k).map(|(_, v)| v),
            _ => None,
        }
    }
    pub fn as_str(&self) -> Option<&str> {
        match self {
            J::Str(s) => Some(s),
            _ => None,
        }
    }
    pub fn as_obj(&self) -> Option<&Vec<(String, J)>> {
        match self {
            J::Obj(v) => Some(v),
            _ => None,
        }
    }
    pub fn as_arr(&self) -> Option<&Vec<J>> {
        match self {
            J::Arr(v) => Some(v),
            _ => None,
        }
    }
    pub fn num_text(&self) -> Option<&str> {
        match self {
            J::Num(s) => Some(s),
            _ => None,
        }
    }
    /// integer value if the number text is an integer literal (no fraction / exponent)
    pub fn as_i128(&self) -> Option<i128> {
        match self {
            J::Num(s) if !s.contains(['.', 'e', 'E']) => s.parse().ok(),
            _ => None,
        }
    }
    pub fn as_f64(&self) -> Option<f64> {
        match self {
            J::Num(s) => s.parse().ok(),
            _ => None,
        }
    }
}

#[derive(Debug, Clone, PartialEq)]
pub struct JErr {
    pub pos: usize,
    pub msg: String,
}

struct P<'a> {
    b: &'a [u8],
    i: usize,
    depth: usize,
}

pub fn parse(s: &str) -> Result<J, JErr> {
    let mut p = P {
        b: s.as_bytes(),
        i: 0,
        depth: 0,
    };
    p.ws();
    let v = p.value()?;
    p.ws();
    if p.i != p.b.len() {
        return Err(p.err("trailing characters after the value"));
    }
    Ok(v)
}

impl<'a> P<'a> {
    fn err(&self, m: &str) -> JErr {
        JErr {
            pos: self.i,
            msg: m.to_string(),
        }
    }
    fn ws(&mut self) {
        while self.i < self.b.len() && matches!(self.b[self.i], b' ' | b'\t' | b'\n' | b'\r') {
            self.i += 1;
        }
    }
    fn peek(&self) -> Option<u8> {
        self.b.get(self.i).copied()
    }
    fn lit(&mut self, w: &str) -> Result<(), JErr> {
        if self.b[self.i..].starts_with(w.as_bytes()) {
            self.i += w.len();
            Ok(())
        } else {
            Err(self.err("bad literal"))
        }
    }
    fn value(&mut self) -> Result<J, JErr> {
        self.depth += 1;
        if self.depth > 256 {
            return Err(self.err("too deep"));
        }
        let r = match self.peek() {
            None => Err(self.err("unexpected end")),
            Some(b'n') => self.lit("null").map(|_| J::Null),
            Some(b't') => self.lit("true").map(|_| J::Bool(true)),
            Some(b'f') => self.lit("false").map(|_| J::Bool(false)),
            Some(b'"') => self.string().map(J::Str),
            Some(b'[') => self.array(),
            Some(b'{') => self.object(),
            Some(c) if c == b'-' || c.is_ascii_digit() => self.number(),
            Some(_) => Err(self.err("unexpected character")),
        };
        self.depth -= 1;
        r
    }
    fn number(&mut self) -> Result<J, JErr> {
        let st = self.i;
        if self.peek() == Some(b'-') {
            self.i += 1;
        }
        match self.peek() {
            Some(b'0') => {
                self.i += 1;
            }
            Some(c) if (b'1'..=b'9').contains(&c) => {
                while matches!(self.peek(), Some(c) if c.is_ascii_digit()) {
                    self.i += 1;
                }
            }
            _ => return Err(self.err("bad number")),
        }
        if self.peek() == Some(b'.') {
            self.i += 1;
            if !matches!(self.peek(), Some(c) if c.is_ascii_digit()) {
                return Err(self.err("bad fraction"));
            }
            while matches!(self.peek(), Some(c) if c.is_ascii_digit()) {
                self.i += 1;
            }
        }
        if matches!(self.peek(), Some(b'e') | Some(b'E')) {
            self.i += 1;
            if matches!(self.peek(), Some(b'+') | Some(b'-')) {
                self.i += 1;
            }
            if !matches!(self.peek(), Some(c) if c.is_ascii_digit()) {
                return Err(self.err("bad exponent"));
            }
            while matches!(self.peek(), Some(c) if c.is_ascii_digit()) {
                self.i += 1;
            }
        }
        Ok(J::Num(
            std::str::from_utf8(&self.b[st..self.i]).unwrap().to_string(),
        ))
    }
    fn hex4(&mut self) -> Result<u32, JErr> {
        if self.i + 4 > self.b.len() {
            return Err(self.err("short \\u escape"));
        }
        let mut v = 0u32;
        for k in 0..4 {
            let c = self.b[self.i + k];
            let d = match c {
                b'0'..=b'9' => c - b'0',
                b'a'..=b'f' => c - b'a' + 10,
                b'A'..=b'F' => c - b'A' + 10,
                _ => return Err(self.err("bad hex digit in \\u escape")),
            };
            v = v * 16 + d as u32;
        }
        self.i += 4;
        Ok(v)
    }
    fn string(&mut self) -> Result<String, JErr> {
        // at opening quote
        self.i += 1;
        let mut out: Vec<u8> = Vec::new();
        loop {
            let Some(c) = self.peek() else {
                return Err(self.err("unterminated string"));
            };
            match c {
                b'"' => {
                    self.i += 1;
                    break;
                }
                b'\\' => {
                    self.i += 1;
                    let Some(e) = self.peek() else {
                        return Err(self.err("unterminated escape"));
                    };
                    self.i += 1;
                    match e {
                        b'"' => out.push(b'"'),
                        b'\\' => out.push(b'\\'),
                        b'/' => out.push(b'/'),
                        b'b' => out.push(8),
                        b'f' => out.push(12),
                        b'n' => out.push(b'\n'),
                        b'r' => out.push(b'\r'),
                        b't' => out.push(b'\t'),
                        b'u' => {
                            let u = self.hex4()?;
                            let cp = if (0xD800..0xDC00).contains(&u) {
                                if self.peek() == Some(b'\\') && self.b.get(self.i + 1) == Some(&b'u') {
                                    self.i += 2;
                                    let lo = self.hex4()?;
                                    if !(0xDC00..0xE000).contains(&lo) {
                                        return Err(self.err("high surrogate not followed by low"));
                                    }
                                    0x10000 + ((u - 0xD800) << 10) + (lo - 0xDC00)
                                } else {
                                    return Err(self.err("lone high surrogate"));
                                }
                            } else if (0xDC00..0xE000).contains(&u) {
                                return Err(self.err("lone low surrogate"));
                            } else {
                                u
                            };
                            let ch = char::from_u32(cp).ok_or_else(|| self.err("bad code point"))?;
                            let mut buf = [0u8; 4];
                            out.extend_from_slice(ch.encode_utf8(&mut buf).as_bytes());
                        }
                        _ => return Err(self.err("invalid escape")),
                    }
                }
                0x00..=0x1F => return Err(self.err("raw control character in string")),
                _ => {
                    out.push(c);
                    self.i += 1;
                }
            }
        }
        // input was a &str and we only split at ASCII, so this is valid UTF-8
        String::from_utf8(out).map_err(|_| self.err("invalid utf-8"))
    }
    fn array(&mut self) -> Result<J, JErr> {
        self.i += 1;
        let mut v = vec![];
        self.ws();
        if self.peek() == Some(b']') {
            self.i += 1;
            return Ok(J::Arr(v));
        }
        loop {
            self.ws();
            v.push(self.value()?);
            self.ws();
            match self.peek() {
                Some(b',') => self.i += 1,
                Some(b']') => {
                    self.i += 1;
                    return Ok(J::Arr(v));
                }
                _ => return Err(self.err("expected , or ]")),
            }
        }
    }
    fn object(&mut self) -> Result<J, JErr> {
        self.i += 1;
        let mut v: Vec<(String, J)> = vec![];
        self.ws();
        if self.peek() == Some(b'}') {
            self.i += 1;
            return Ok(J::Obj(v));
        }
        loop {
            self.ws();
            if self.peek() != Some(b'"') {
                return Err(self.err("expected string key"));
            }
            let k = self.string()?;
            if v.iter().any(|(kk, _)| *kk == k) {
                return Err(JErr {
                    pos: self.i,
                    msg: format!("duplicate key {k:?}"),
                });
            }
            self.ws();
            if self.peek() != Some(b':') {
                return Err(self.err("expected :"));
            }
            self.i += 1;
            self.ws();
            let val = self.value()?;
            v.push((k, val));
            self.ws();
            match self.peek() {
                Some(b',') => self.i += 1,
                Some(b'}') => {
                    self.i += 1;
                    return Ok(J::Obj(v));
                }
                _ => return Err(self.err("expected , or }")),
            }
        }
    }
}

#[cfg(test)]
mod t {
    use super::*;
    #[test]
    fn basics() {
        assert!(parse(r#"{"a":1,"a":2}"#).is_err());
        assert!(parse(r#"{"a":1} x"#).is_err());
        assert!(parse("{\"a\":\"\u{1}\"}").is_err());
        assert!(parse(r#"{"a":"\ud800"}"#).is_err());
        assert!(parse(r#"{"a":01}"#).is_err());
        assert!(parse(r#"{"a":NaN}"#).is_err());
        let v = parse(r#"{"a":"😀\n","b":[1,-2.5e3,null,true]}"#).unwrap();
        assert_eq!(v.get("a").unwrap().as_str().unwrap(), "\u{1F600}\n");
        assert_eq!(v.get("b").unwrap().as_arr().unwrap().len(), 4);
        assert!(parse("{\"a\":\"\u{2028}\"}").is_ok());
    }
}
