//! Common library of the runtime-monitoring harness (see /verif/DESIGN.md section 2).
pub mod c18gen;
pub mod chaos;
pub mod civil;
pub mod dirspec;
pub mod exec;
pub mod json;
pub mod known;
pub mod proto;
pub mod rec;
pub mod rng;
pub mod run;
pub mod sanimpl;
pub mod sanlayer;
pub mod scripted_writer;
pub mod stamps;

pub use rng::Rng;
pub use run::{Args, ChildSpec, Finish, Mode, Out, Tier};
pub use serde_json::{json, Map, Value};
