//! Pool of static callsites made with the real `tracing` macros.
//! level: 1 = ERROR .. 5 = TRACE (verbosity rank; a filter threshold 0 = OFF).
use std::sync::atomic::{AtomicUsize, Ordering};

#[derive(Clone, Copy, Debug, PartialEq, Eq, Hash, PartialOrd, Ord)]
pub enum Kind {
    Event,
    Span,
    Probe,
}

pub enum Emitted {
    Event,
    Span(tracing::Span),
    Probe(bool),
}

pub struct Cs {
    pub idx: usize,
    pub level: usize,
    pub target: usize,
    pub kind: Kind,
    pub emit: fn(u64) -> Emitted,
}

pub const TARGETS: [&str; 4] = ["app", "app::db", "application", "net"];
pub const LEVEL_NAMES: [&str; 6] = ["OFF", "ERROR", "WARN", "INFO", "DEBUG", "TRACE"];

thread_local! {
    static XPARENT: std::cell::RefCell<Option<tracing::Id>> = const { std::cell::RefCell::new(None) };
}
/// explicit parent used by the callsites of `POOL_XE` on this thread
pub fn set_xparent(id: Option<tracing::Id>) {
    XPARENT.with(|x| *x.borrow_mut() = id);
}
pub fn xparent() -> Option<tracing::Id> {
    XPARENT.with(|x| x.borrow().clone())
}

include!(concat!(env!("OUT_DIR"), "/pool.rs"));

pub fn level_of(l: &tracing_core::Level) -> usize {
    match *l {
        tracing_core::Level::ERROR => 1,
        tracing_core::Level::WARN => 2,
        tracing_core::Level::INFO => 3,
        tracing_core::Level::DEBUG => 4,
        _ => 5,
    }
}
pub fn filter_of(rank: usize) -> tracing_core::LevelFilter {
    use tracing_core::LevelFilter as F;
    [F::OFF, F::ERROR, F::WARN, F::INFO, F::DEBUG, F::TRACE][rank]
}
pub fn rank_of_filter(f: &tracing_core::LevelFilter) -> usize {
    use tracing_core::LevelFilter as F;
    [F::OFF, F::ERROR, F::WARN, F::INFO, F::DEBUG, F::TRACE]
        .iter()
        .position(|x| x == f)
        .unwrap()
}
pub fn target_index(t: &str) -> Option<usize> {
    TARGETS.iter().position(|x| *x == t)
}

fn class_base(level: usize, target: usize, kind: Kind) -> usize {
    let k = match kind {
        Kind::Event => 0,
        Kind::Span => 1,
        Kind::Probe => 2,
    };
    (((level - 1) * 4 + target) * 3 + k) * COPIES
}

/// Per-process allocator of never-hit copies.
pub struct Fresh {
    next: Vec<AtomicUsize>,
    next_xp: Vec<AtomicUsize>,
    next_xe: Vec<AtomicUsize>,
}
impl Default for Fresh {
    fn default() -> Self {
        Self::new()
    }
}
impl Fresh {
    pub fn new() -> Self {
        Fresh {
            next: (0..5 * 4 * 3).map(|_| AtomicUsize::new(0)).collect(),
            next_xp: (0..5 * 4).map(|_| AtomicUsize::new(0)).collect(),
            next_xe: (0..5 * 4).map(|_| AtomicUsize::new(0)).collect(),
        }
    }
    /// next unused copy of the class, or None when the class is exhausted
    pub fn take(&self, level: usize, target: usize, kind: Kind) -> Option<&'static Cs> {
        let base = class_base(level, target, kind);
        let n = self.next[base / COPIES].fetch_add(1, Ordering::Relaxed);
        if n < COPIES {
            Some(&POOL[base + n])
        } else {
            None
        }
    }
    /// next unused copy of a span callsite written `span!(parent: None, ..)` (explicit-parent arm
    /// of the macro; `idx` continues after the main pool)
    pub fn take_root_span(&self, level: usize, target: usize) -> Option<&'static Cs> {
        let class = (level - 1) * 4 + target;
        let n = self.next_xp[class].fetch_add(1, Ordering::Relaxed);
        if n < XP_COPIES {
            Some(&POOL_XP[class * XP_COPIES + n])
        } else {
            None
        }
    }
    /// next unused copy of an event callsite written `event!(parent: xparent(), ..)`
    pub fn take_xparent_event(&self, level: usize, target: usize) -> Option<&'static Cs> {
        let class = (level - 1) * 4 + target;
        let n = self.next_xe[class].fetch_add(1, Ordering::Relaxed);
        if n < XP_COPIES {
            Some(&POOL_XE[class * XP_COPIES + n])
        } else {
            None
        }
    }
    pub fn remaining(&self, level: usize, target: usize, kind: Kind) -> usize {
        let base = class_base(level, target, kind);
        COPIES.saturating_sub(self.next[base / COPIES].load(Ordering::Relaxed))
    }
}
