// Generates the pool of static callsites (real `tracing` macros, one expansion each).
use std::fmt::Write as _;
fn main() {
    let copies: usize = 40;
    let levels = ["ERROR", "WARN", "INFO", "DEBUG", "TRACE"];
    let targets = ["app", "app::db", "application", "net"];
    let mut s = String::new();
    writeln!(s, "pub const COPIES: usize = {copies};").unwrap();
    writeln!(s, "pub static POOL: &[Cs] = &[").unwrap();
    let mut idx = 0usize;
    for (li, l) in levels.iter().enumerate() {
        for (ti, t) in targets.iter().enumerate() {
            for kind in ["Event", "Span", "Probe"] {
                for _c in 0..copies {
                    let body = match kind {
                        "Event" => format!("{{ tracing::event!(target: \"{t}\", tracing::Level::{l}, id); Emitted::Event }}"),
                        "Span" => format!("{{ Emitted::Span(tracing::span!(target: \"{t}\", tracing::Level::{l}, \"sp\", id)) }}"),
                        _ => format!("{{ let _ = id; Emitted::Probe(tracing::enabled!(target: \"{t}\", tracing::Level::{l})) }}"),
                    };
                    writeln!(
                        s,
                        "Cs {{ idx: {idx}, level: {lv}, target: {ti}, kind: Kind::{kind}, emit: |id: u64| {body} }},",
                        lv = li + 1
                    )
                    .unwrap();
                    idx += 1;
                }
            }
        }
    }
    writeln!(s, "];").unwrap();
    // second pool: spans made through the explicit-parent arm of the macro (`parent: None`)
    let xp_copies: usize = 20;
    writeln!(s, "pub const XP_COPIES: usize = {xp_copies};").unwrap();
    writeln!(s, "pub static POOL_XP: &[Cs] = &[").unwrap();
    for (li, l) in levels.iter().enumerate() {
        for (ti, t) in targets.iter().enumerate() {
            for _c in 0..xp_copies {
                writeln!(
                    s,
                    "Cs {{ idx: {idx}, level: {lv}, target: {ti}, kind: Kind::Span, emit: |id: u64| {{ Emitted::Span(tracing::span!(target: \"{t}\", parent: None, tracing::Level::{l}, \"sp\", id)) }} }},",
                    lv = li + 1
                )
                .unwrap();
                idx += 1;
            }
        }
    }
    writeln!(s, "];").unwrap();
    // third pool: events with an explicit parent taken from `xparent()` (a thread-local the
    // harness sets before calling `emit`)
    writeln!(s, "pub static POOL_XE: &[Cs] = &[").unwrap();
    for (li, l) in levels.iter().enumerate() {
        for (ti, t) in targets.iter().enumerate() {
            for _c in 0..xp_copies {
                writeln!(
                    s,
                    "Cs {{ idx: {idx}, level: {lv}, target: {ti}, kind: Kind::Event, emit: |id: u64| {{ tracing::event!(target: \"{t}\", parent: crate::xparent(), tracing::Level::{l}, id); Emitted::Event }} }},",
                    lv = li + 1
                )
                .unwrap();
                idx += 1;
            }
        }
    }
    writeln!(s, "];").unwrap();
    let out = std::path::PathBuf::from(std::env::var("OUT_DIR").unwrap()).join("pool.rs");
    std::fs::write(out, s).unwrap();
    println!("cargo:rerun-if-changed=build.rs");
}
