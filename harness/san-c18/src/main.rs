//! C18 Miri layer.  usage: san-c18 <seed> <records>
//! Pushes generated `log::Record`s through `LogTracer::log` while a recording collector (level x
//! target filter) is the default; the collector calls `normalized_metadata()` / `is_log()` on
//! each event and keeps owned copies.  The same oracle as part A of the native check runs on
//! the results; a mismatch prints `C18-MISMATCH ...` and exits 3.  Miri reports UB itself.
use std::sync::Mutex;
use tracing_core::field::{Field, Visit};
use tracing_core::span::{Attributes, Current, Id, Record};
use tracing_core::{dispatch, Collect, Dispatch, Event, LevelFilter, Metadata};
use tracing_log::{LogTracer, NormalizeEvent};
// (format_trace is called by path)

struct Rng(u64);
impl Rng {
    fn next(&mut self) -> u64 {
        self.0 = self.0.wrapping_add(0x9E37_79B9_7F4A_7C15);
        let mut z = self.0;
        z = (z ^ (z >> 30)).wrapping_mul(0xBF58_476D_1CE4_E5B9);
        z = (z ^ (z >> 27)).wrapping_mul(0x94D0_49BB_1331_11EB);
        z ^ (z >> 31)
    }
    fn below(&mut self, n: u64) -> u64 {
        self.next() % n
    }
    fn text(&mut self, max: u64) -> String {
        const CH: &[char] = &['a', 'z', '0', ':', ' ', '"', '\\', '=', '\n', 'é', '日', '本', '\u{301}', '🎉', '\u{10ffff}', '\0'];
        (0..self.below(max + 1)).map(|_| CH[self.below(CH.len() as u64) as usize]).collect()
    }
}

fn rank(l: &tracing_core::Level) -> usize {
    use tracing_core::Level as L;
    [L::ERROR, L::WARN, L::INFO, L::DEBUG, L::TRACE].iter().position(|x| x == l).unwrap() + 1
}

#[derive(Debug)]
struct Got {
    message: Option<String>,
    is_log: bool,
    target: String,
    level: usize,
    file: Option<String>,
    line: Option<u32>,
    module: Option<String>,
}
struct MsgV(Option<String>);
impl Visit for MsgV {
    fn record_debug(&mut self, f: &Field, v: &dyn std::fmt::Debug) {
        if f.name() == "message" {
            self.0 = Some(format!("{:?}", v));
        }
    }
}
struct Col {
    thresh: usize,
    targets: Vec<String>,
    hint: Option<LevelFilter>,
    got: &'static Mutex<Vec<Got>>,
}
impl Collect for Col {
    fn enabled(&self, m: &Metadata<'_>) -> bool {
        rank(m.level()) <= self.thresh && self.targets.iter().any(|t| t == m.target())
    }
    fn max_level_hint(&self) -> Option<LevelFilter> {
        self.hint
    }
    fn new_span(&self, _: &Attributes<'_>) -> Id {
        Id::from_u64(1)
    }
    fn record(&self, _: &Id, _: &Record<'_>) {}
    fn record_follows_from(&self, _: &Id, _: &Id) {}
    fn event(&self, e: &Event<'_>) {
        let mut v = MsgV(None);
        e.record(&mut v);
        let g = match e.normalized_metadata() {
            Some(m) => Got {
                message: v.0,
                is_log: e.is_log(),
                target: m.target().to_string(),
                level: rank(m.level()),
                file: m.file().map(String::from),
                line: m.line(),
                module: m.module_path().map(String::from),
            },
            None => Got { message: v.0, is_log: e.is_log(), target: "<no normalized metadata>".into(), level: 0, file: None, line: None, module: None },
        };
        self.got.lock().unwrap().push(g);
    }
    fn enter(&self, _: &Id) {}
    fn exit(&self, _: &Id) {}
    fn current_span(&self) -> Current {
        Current::unknown()
    }
}

static GOT: Mutex<Vec<Got>> = Mutex::new(Vec::new());
const POOL: &[&str] = &["log", "app", "app::db", "", "日本::語", "a b"];
const LEVELS: [log::Level; 5] = [log::Level::Error, log::Level::Warn, log::Level::Info, log::Level::Debug, log::Level::Trace];
const FILTERS: [LevelFilter; 6] =
    [LevelFilter::OFF, LevelFilter::ERROR, LevelFilter::WARN, LevelFilter::INFO, LevelFilter::DEBUG, LevelFilter::TRACE];

/// First use of the bridge's per-level tables from several threads at once, before the main
/// thread has touched them.  The threads share nothing but the library after the barrier (each
/// has its own collector with its own storage), so an initialisation that is not properly
/// published shows as a data race under Miri.  Returns the number of mismatches.
fn race_first_use(seed: u64) -> u64 {
    use std::sync::{Arc, Barrier};
    let nthreads = 3usize;
    let barrier = Arc::new(Barrier::new(nthreads));
    let mut hs = vec![];
    for t in 0..nthreads {
        let barrier = barrier.clone();
        hs.push(std::thread::spawn(move || {
            static GOTS: [Mutex<Vec<Got>>; 3] = [Mutex::new(Vec::new()), Mutex::new(Vec::new()), Mutex::new(Vec::new())];
            let got: &'static Mutex<Vec<Got>> = &GOTS[t];
            let d = Dispatch::new(Col { thresh: 5, targets: POOL.iter().map(|s| s.to_string()).collect(), hint: None, got });
            let mut bad = 0u64;
            dispatch::with_default(&d, || {
                barrier.wait();
                for k in 0..5usize {
                    let level = (k * (t + 1) + t + seed as usize) % 5;
                    let target = POOL[(t + k) % POOL.len()];
                    let mut b = log::Record::builder();
                    b.level(LEVELS[level]).target(target).line(Some(7 + k as u32));
                    let r = b.args(format_args!("first use {}", 1)).build();
                    let _ = tracing_log::format_trace(&r);
                    let g: Vec<Got> = std::mem::take(&mut *got.lock().unwrap());
                    let ok = g.len() == 1 && g[0].is_log && g[0].level == level + 1 && g[0].target == target && g[0].line == Some(7 + k as u32) && g[0].message.as_deref() == Some("first use 1");
                    if !ok {
                        bad += 1;
                        println!("C18-MISMATCH (first use from thread {t}) level={} target={target:?} got={g:?}", level + 1);
                    }
                }
            });
            bad
        }));
    }
    hs.into_iter().map(|h| h.join().unwrap_or(1)).sum()
}

fn main() {
    let a: Vec<String> = std::env::args().collect();
    let seed: u64 = a.get(1).and_then(|s| s.parse().ok()).unwrap_or(1);
    let n: u64 = a.get(2).and_then(|s| s.parse().ok()).unwrap_or(200);
    let race_bad = race_first_use(seed);
    if race_bad > 0 {
        std::process::exit(3);
    }
    let mut rng = Rng(seed ^ 0xC18);
    let tracer = LogTracer::new();
    let logger: &dyn log::Log = &tracer;
    let (mut events, mut mismatches) = (0u64, 0u64);
    let per_filter = 25;
    let mut done = 0;
    while done < n {
        let thresh = 2 + rng.below(4) as usize;
        let mut targets: Vec<String> = POOL.iter().filter(|_| rng.below(3) != 0).map(|s| s.to_string()).collect();
        let extra = rng.text(6);
        targets.push(extra.clone());
        let hint = match rng.below(3) {
            0 => None,
            1 => Some(FILTERS[thresh]),
            _ => Some(LevelFilter::TRACE),
        };
        let d = Dispatch::new(Col { thresh, targets: targets.clone(), hint, got: &GOT });
        dispatch::with_default(&d, || {
            for _ in 0..per_filter.min(n - done) {
                done += 1;
                let level = rng.below(5) as usize;
                let target = match rng.below(4) {
                    0 => rng.text(8),
                    1 => extra.clone(),
                    _ => POOL[rng.below(POOL.len() as u64) as usize].to_string(),
                };
                let msg = rng.text(20);
                let file = (rng.below(2) == 0).then(|| rng.text(12));
                let line = (rng.below(2) == 0).then(|| rng.next() as u32 >> rng.below(32));
                let module = (rng.below(2) == 0).then(|| rng.text(10));
                let k = rng.below(3);
                let text = match k {
                    0 => msg.clone(),
                    1 => format!("{}|{:?}", msg, line),
                    _ => "literal".to_string(),
                };
                let mut b = log::Record::builder();
                b.level(LEVELS[level]).target(&target).file(file.as_deref()).line(line).module_path(module.as_deref());
                // both public doors of the bridge: the logger, then format_trace
                let go = |r: &log::Record<'_>| {
                    let en = logger.enabled(r.metadata());
                    logger.log(r);
                    let _ = tracing_log::format_trace(r);
                    en
                };
                let en = match k {
                    0 => go(&b.args(format_args!("{}", msg)).build()),
                    1 => go(&b.args(format_args!("{}|{:?}", msg, line)).build()),
                    _ => go(&b.args(format_args!("literal")).build()),
                };
                let expect = level + 1 <= thresh && targets.iter().any(|t| *t == target);
                let got: Vec<Got> = std::mem::take(&mut *GOT.lock().unwrap());
                events += got.len() as u64;
                let ok = en == expect
                    && got.len() == 2 * expect as usize
                    && got.iter().all(|g| {
                        g.is_log
                            && g.message.as_deref() == Some(text.as_str())
                            && g.target == target
                            && g.level == level + 1
                            && g.file == file
                            && g.line == line
                            && g.module == module
                    });
                if !ok {
                    mismatches += 1;
                    println!(
                        "C18-MISMATCH level={} target={:?} text={:?} file={:?} line={:?} module={:?} filter=(max {}, targets {:?}, hint {:?}) enabled={} expected={} got={:?}",
                        level + 1, target, text, file, line, module, thresh, targets, hint, en, expect, got
                    );
                }
            }
        });
    }
    if mismatches > 0 {
        std::process::exit(3);
    }
    println!("MIRI-C18 ok records={} events={}", done, events);
}
