#!/usr/bin/env python3
"""C10 corpus generator (DESIGN.md 5/C10).

Emits Rust source: for every case (macro x syntactic form x value-type vector)
  mN(p, &v0, &v1, ..)  the macro invocation; every value / message-argument expression is
                       wrapped in `tick(k, ..)` (dotted shorthand paths go through a
                       Deref-counting wrapper), so evaluation counts are observable;
  xN(&v0, &v1, ..)     the expectation: ordered (field name, visitor method, value/text),
                       "message" first for format-string messages; written with std
                       `format!` / plain casts only, never through tracing;
  cN(src, p)           adapter: draws the values, calls xN then mN, returns an Outcome;
and a table of `Case` entries.  Only forms documented in tracing/src/lib.rs ("Using the
Macros"), the macros' own doc comments, or exercised by tracing/tests/macros.rs are produced.

usage: c10.py [--seed N] [--out DIR] [--random N] [--sigil-types-display-only]
  seed 0 (default) is the committed corpus in checks/src/gen_c10/ (the build never needs
  python); the thorough tier of the check generates a second corpus with --seed 1+VERIF_SEED
  --random 700 into evidence/tmp/c10x and compiles it into a throw-away crate.
  --sigil-types-display-only is for mutant runs that swap the `%` / `?` arms of valueset!.
Sections of the plan: S1 value kinds x macros, S2 sigils / shorthands, S3 messages,
S4 prefixes, S5 Empty + later record / undeclared / foreign fields / record_all!,
S6 enabled!, S7 seeded random combinations (incl. 32 fields), S8 every valueset! arm.
"""
import argparse
import os
import random
import sys

# ---------------------------------------------------------------------------- helpers


def rs_str(s):
    out = ['"']
    for ch in s:
        if ch == '"':
            out.append('\\"')
        elif ch == '\\':
            out.append('\\\\')
        elif ch == '\n':
            out.append('\\n')
        elif ch == '\r':
            out.append('\\r')
        elif ch == '\t':
            out.append('\\t')
        elif ord(ch) < 0x20 or ord(ch) == 0x7f:
            out.append('\\u{%x}' % ord(ch))
        else:
            out.append(ch)
    out.append('"')
    return ''.join(out)


LEVELS = ['ERROR', 'WARN', 'INFO', 'DEBUG', 'TRACE']  # rank 1..5
EVENT_SHORT = ['error', 'warn', 'info', 'debug', 'trace']
SPAN_SHORT = ['error_span', 'warn_span', 'info_span', 'debug_span', 'trace_span']

# ---------------------------------------------------------------------------- value kinds



def dbg2(fm, raw):
    """expectation for a value recorded with a sigil: the text under the plain spec and under a
    width/alignment spec (the sigil wrappers must pass the formatter's flags through)"""
    padded = '{:>14}' if fm == '{}' else '{:>14?}'
    return 'Rec::Debug2 { plain: format!("%s", %s), padded: format!("%s", %s) }' % (fm, raw, padded, raw)

class VK:
    """value usable as `name = <value>` (has a `Value` impl in tracing-core/src/field.rs)"""

    def __init__(self, name, ty, raw, exp, pre='', sh=True, tickable=True):
        self.name, self.ty, self.raw, self.exp, self.pre, self.sh = name, ty, raw, exp, pre, sh
        self.tickable = tickable


class DK:
    """value usable behind a `%` / `?` sigil, in display(..)/debug(..) or as a format argument"""

    def __init__(self, name, ty, raw, disp=True, cls='other'):
        self.name, self.ty, self.raw, self.disp, self.cls = name, ty, raw, disp, cls


UINTS = ['u8', 'u16', 'u32', 'u64', 'usize']
SINTS = ['i8', 'i16', 'i32', 'i64', 'isize']
NZ = {'u8': 'NonZeroU8', 'u16': 'NonZeroU16', 'u32': 'NonZeroU32', 'u64': 'NonZeroU64',
      'usize': 'NonZeroUsize', 'u128': 'NonZeroU128', 'i8': 'NonZeroI8', 'i16': 'NonZeroI16',
      'i32': 'NonZeroI32', 'i64': 'NonZeroI64', 'isize': 'NonZeroIsize', 'i128': 'NonZeroI128'}

ERR = 'dyn std::error::Error'


def build_vk():
    ks = []
    # integers: u8..u64, usize -> record_u64; i8..i64, isize -> record_i64; 128-bit -> own methods
    for t in UINTS:
        ks.append(VK(t, t, '*{v}', 'Rec::U64(*{v} as u64)'))
    for t in SINTS:
        ks.append(VK(t, t, '*{v}', 'Rec::I64(*{v} as i64)'))
    ks.append(VK('u128', 'u128', '*{v}', 'Rec::U128(*{v})'))
    ks.append(VK('i128', 'i128', '*{v}', 'Rec::I128(*{v})'))
    # NonZero*
    for t in UINTS:
        ks.append(VK('nz_' + t, 'std::num::' + NZ[t], '*{v}', 'Rec::U64({v}.get() as u64)'))
    for t in SINTS:
        ks.append(VK('nz_' + t, 'std::num::' + NZ[t], '*{v}', 'Rec::I64({v}.get() as i64)'))
    ks.append(VK('nz_u128', 'std::num::NonZeroU128', '*{v}', 'Rec::U128({v}.get())'))
    ks.append(VK('nz_i128', 'std::num::NonZeroI128', '*{v}', 'Rec::I128({v}.get())'))
    # Wrapping<T>
    for t in UINTS:
        ks.append(VK('wr_' + t, 'std::num::Wrapping<%s>' % t, '*{v}', 'Rec::U64({v}.0 as u64)'))
    for t in SINTS:
        ks.append(VK('wr_' + t, 'std::num::Wrapping<%s>' % t, '*{v}', 'Rec::I64({v}.0 as i64)'))
    ks.append(VK('wr_u128', 'std::num::Wrapping<u128>', '*{v}', 'Rec::U128({v}.0)'))
    ks.append(VK('wr_i128', 'std::num::Wrapping<i128>', '*{v}', 'Rec::I128({v}.0)'))
    # floats, bool
    ks.append(VK('f32', 'f32', '*{v}', 'Rec::f64(*{v} as f64)'))
    ks.append(VK('f64', 'f64', '*{v}', 'Rec::f64(*{v})'))
    ks.append(VK('bool', 'bool', '*{v}', 'Rec::Bool(*{v})'))
    # strings
    S = 'Rec::Str({v}.clone())'
    ks.append(VK('str', 'String', '{v}.as_str()', S))
    ks.append(VK('string', 'String', '{v}.clone()', S))
    ks.append(VK('ref_string', 'String', '{v}', S))
    ks.append(VK('refref_str', 'String', '&{v}.as_str()', S, sh=False))
    ks.append(VK('box_str', 'String', '{v}.clone().into_boxed_str()', S))
    ks.append(VK('mut_string', 'String', '&mut m{i}', S, pre='let mut m{i} = {v}.clone();'))
    ks.append(VK('box_string', 'String', 'Box::new({v}.clone())', S))
    # bytes
    B = 'Rec::Bytes({v}.clone())'
    ks.append(VK('bytes', 'Vec<u8>', '{v}.as_slice()', B))
    ks.append(VK('box_bytes', 'Vec<u8>', '{v}.clone().into_boxed_slice()', B))
    ks.append(VK('refref_bytes', 'Vec<u8>', '&{v}.as_slice()', B, sh=False))
    # the four dyn Error flavours (by reference), boxed ones
    X = '{v}.exp()'
    ks.append(VK('err', 'TErr', "({v} as &(%s + 'static))" % ERR, X))
    ks.append(VK('err_send', 'TErr', "({v} as &(%s + Send + 'static))" % ERR, X))
    ks.append(VK('err_sync', 'TErr', "({v} as &(%s + Sync + 'static))" % ERR, X))
    ks.append(VK('err_send_sync', 'TErr', "({v} as &(%s + Send + Sync + 'static))" % ERR, X))
    ks.append(VK('box_err', 'TErr', "(Box::new({v}.clone()) as Box<%s + 'static>)" % ERR, X))
    ks.append(VK('box_err_send_sync', 'TErr', "(Box::new({v}.clone()) as Box<%s + Send + Sync + 'static>)" % ERR, X))
    ks.append(VK('ref_box_err_send', 'TErr', "&b{i}", X,
                 pre="let b{i}: Box<%s + Send + 'static> = Box::new({v}.clone());" % ERR))
    # &T / &mut T / Box<T> over the primitives
    ks.append(VK('ref_u8', 'u8', '{v}', 'Rec::U64(*{v} as u64)'))
    ks.append(VK('refref_i32', 'i32', '&{v}', 'Rec::I64(*{v} as i64)', sh=False))
    ks.append(VK('mut_u64', 'u64', '&mut m{i}', 'Rec::U64(*{v})', pre='let mut m{i} = *{v};'))
    ks.append(VK('box_i128', 'i128', 'Box::new(*{v})', 'Rec::I128(*{v})'))
    ks.append(VK('box_box_f32', 'f32', 'Box::new(Box::new(*{v}))', 'Rec::f64(*{v} as f64)'))
    ks.append(VK('ref_box_bool', 'bool', '&b{i}', 'Rec::Bool(*{v})', pre='let b{i} = Box::new(*{v});'))
    ks.append(VK('box_ref_str', 'String', 'Box::new({v}.as_str())', S))
    ks.append(VK('ref_nz_u32', 'std::num::NonZeroU32', '{v}', 'Rec::U64({v}.get() as u64)'))
    ks.append(VK('ref_wr_i8', 'std::num::Wrapping<i8>', '{v}', 'Rec::I64({v}.0 as i64)'))
    ks.append(VK('box_wr_u64', 'std::num::Wrapping<u64>', 'Box::new(*{v})', 'Rec::U64({v}.0)'))
    ks.append(VK('mut_f64', 'f64', '&mut m{i}', 'Rec::f64(*{v})', pre='let mut m{i} = *{v};'))
    ks.append(VK('ref_u128', 'u128', '{v}', 'Rec::U128(*{v})'))
    ks.append(VK('wr_nz_u16', 'std::num::Wrapping<std::num::NonZeroU16>', '*{v}', 'Rec::U64({v}.0.get() as u64)'))
    # fmt::Arguments
    ks.append(VK('args_i64', 'i64', 'format_args!("<{{}}>", {v})', 'Rec::Debug(format!("<{{}}>", {v}))', sh=False))
    ks.append(VK('args_str', 'String', 'format_args!("{{:?}}/{{}}", {v}, {v})',
                 'Rec::Debug(format!("{{:?}}/{{}}", {v}, {v}))', sh=False))
    return ks


def build_dk():
    ks = []
    for t in ['i8', 'u64', 'i128', 'u128', 'u32', 'isize']:
        ks.append(DK(t, t, '*{v}', cls='int'))
    ks.append(DK('f32', 'f32', '*{v}', cls='float'))
    ks.append(DK('f64', 'f64', '*{v}', cls='float'))
    ks.append(DK('bool', 'bool', '*{v}'))
    ks.append(DK('char', 'char', '*{v}'))
    ks.append(DK('str', 'String', '{v}.as_str()', cls='str'))
    ks.append(DK('ref_string', 'String', '{v}', cls='str'))
    ks.append(DK('string', 'String', '{v}.clone()', cls='str'))
    ks.append(DK('dd', 'DD', '{v}'))
    ks.append(DK('terr', 'TErr', '{v}'))
    ks.append(DK('ipv4', 'std::net::Ipv4Addr', '*{v}'))
    ks.append(DK('wr_i32', 'std::num::Wrapping<i32>', '*{v}'))
    ks.append(DK('nz_u8', 'std::num::NonZeroU8', '*{v}'))
    # Debug only
    ks.append(DK('opt_i32', 'Option<i32>', '*{v}', disp=False))
    ks.append(DK('tuple', '(i32, String)', '{v}', disp=False))
    ks.append(DK('vec_u8', 'Vec<u8>', '{v}', disp=False))
    ks.append(DK('slice_u8', 'Vec<u8>', '{v}.as_slice()', disp=False))
    ks.append(DK('arr_u16', '[u16; 3]', '*{v}', disp=False))
    ks.append(DK('result', 'Result<u8, String>', '{v}', disp=False))
    ks.append(DK('pt', 'Pt', '{v}', disp=False))
    return ks


VKS = build_vk()
DKS = build_dk()
DKS_DISP = [k for k in DKS if k.disp]
VK_BY = {k.name: k for k in VKS}
DK_BY = {k.name: k for k in DKS}
VKS_SH = [k for k in VKS if k.sh]

# format specs per class: (spec for Display position, is_debug)
SPECS = {
    'int': ['{}', '{:>8}', '{:#x}', '{:08b}', '{:+}', '{:<5}|', '{:e}'],
    'float': ['{}', '{:10.3}', '{:+e}', '{:.0}', '{:?}', '{:08.2}'],
    'str': ['{}', '{:^9}', '{:.2}', '{:?}', '{:>12}', '{:-<6}'],
    'other': ['{}', '{:?}'],
}

# ---------------------------------------------------------------------------- names

IDENTS = ['a', 'b', 'foo', 'bar_baz', 'x1', 'user', 'count', 'answer', 'question', 'is_ok', 'n', 'yak',
          'status', 'elapsed_ms', 'k9', 'value']
DOTTED = ['http.status', 'a.b.c', 'user.id.raw', 'question.answer', 'bar.baz', 'x.y', 'net.peer.ip', 'q.tricky']
LITS = ['quoted name', 'guid:x-request-id', 'type', 'with.dot', 'ünï.cødé', 'emoji🚀', 'q"uote', 'back\\slash',
        'has space and = sign', '1starts_with_digit', 'fn', 'self', 'a-b', '{braces}', '%pct', '?q']
CONSTS = ['const.name', 'resource', 'foo bar', 'RES-2', 'ключ']
RAWS = [('r#type', 'type'), ('r#fn', 'fn'), ('r#match', 'match'), ('r#async', 'async'), ('r#loop', 'loop')]

# ---------------------------------------------------------------------------- model of one case


class Fld:
    """one field: namesyn in ident|dotted|lit|const|raw|auto ; valsyn in
    plain|disp|dbg|dispfn|dbgfn|sh|sh_disp|sh_dbg|shd|shd2|shd_disp|shd_dbg|empty|tempty"""

    def __init__(self, namesyn, valsyn, kind=None):
        if valsyn in ('sh', 'sh_disp', 'sh_dbg'):
            namesyn = 'ident'  # the field is named after the local variable
        elif valsyn in ('shd', 'shd2', 'shd_disp', 'shd_dbg'):
            namesyn = 'dotted'  # .. after the path
        self.namesyn, self.valsyn, self.kind = namesyn, valsyn, kind


class Msg:
    """format-string message: form in lit|pos|inline|named|spec|esc|uni|mixed ; args list of DK"""

    def __init__(self, form, kinds):
        self.form, self.kinds = form, kinds


class CaseSpec:
    def __init__(self, mac, level, prefix=(), fields=(), msg=None, tc=False, brace=False, later=(), parent='p',
                 probe=False):
        self.mac, self.level, self.prefix, self.fields = mac, level, list(prefix), list(fields)
        self.msg, self.tc, self.brace, self.later, self.parent = msg, tc, brace, list(later), parent
        self.probe = probe

    def family(self):
        if self.mac == 'enabled':
            return 'probe'
        return 'span' if self.mac == 'span' or self.mac.endswith('_span') else 'event'


class Emit:
    """turns a CaseSpec into Rust source"""

    def __init__(self, idx, spec, rng):
        self.idx, self.c, self.rng = idx, spec, rng
        self.params = []  # (var, ty, kindname)
        self.pre = []  # prelude statements in mN
        self.consts = []
        self.nt = 0
        self.used = set()
        self.exp_first = []
        self.ok = True

    # -- allocation
    def param(self, ty, kname):
        v = 'v%d' % len(self.params)
        self.params.append((v, ty, kname))
        return v, len(self.params) - 1

    def tickno(self):
        k = self.nt
        self.nt += 1
        return k

    def uniq(self, pool):
        avail = [n for n in pool if n not in self.used]
        if avail:
            n = self.rng.choice(avail)
        else:
            i = 0
            while 'f%d' % i in self.used:
                i += 1
            n = 'f%d' % i
        self.used.add(n)
        return n

    def name_for(self, namesyn):
        """returns (text in the macro, expected name literal, alt literal or None)"""
        if namesyn == 'ident':
            n = self.uniq(IDENTS)
            return n, n, None
        if namesyn == 'dotted':
            avail = [d for d in DOTTED if d not in self.used]
            n = self.rng.choice(avail) if avail else 'd%d.x.y' % len(self.used)
            self.used.add(n)
            return n, n, None
        if namesyn == 'lit':
            avail = [d for d in LITS if d not in self.used]
            n = self.rng.choice(avail) if avail else 'lit %d' % len(self.used)
            self.used.add(n)
            return rs_str(n), n, None
        if namesyn == 'const':
            avail = [d for d in CONSTS if d not in self.used]
            n = self.rng.choice(avail) if avail else 'const %d' % len(self.used)
            self.used.add(n)
            cname = 'N%d_%d' % (self.idx, len(self.consts))
            self.consts.append('const %s: &str = %s;' % (cname, rs_str(n)))
            return '{ %s }' % cname, n, None
        if namesyn == 'raw':
            avail = [d for d in RAWS if d[0] not in self.used and d[1] not in self.used]
            if not avail:
                return self.name_for('ident')
            r = self.rng.choice(avail)
            self.used.add(r[0])
            self.used.add(r[1])
            return r[0], r[0], r[1]
        raise ValueError(namesyn)

    @staticmethod
    def e(name, alt, rec):
        if alt is None:
            return 'e(%s, %s)' % (rs_str(name), rec)
        return 'e2(%s, %s, %s)' % (rs_str(name), rs_str(alt), rec)

    # -- one field -> (macro text, expectation entry or None)
    def field(self, f, ticked=True, preset=None):
        vs, k = f.valsyn, f.kind
        name_for = (lambda _ns: preset) if preset is not None else self.name_for
        if vs in ('empty', 'tempty'):
            txt, en, alt = name_for(f.namesyn)
            if vs == 'tempty' and ticked:
                return '%s = tick(%d, tracing::field::Empty)' % (txt, self.tickno()), None, (en, alt)
            return '%s = tracing::field::Empty' % txt, None, (en, alt)
        v, i = self.param(k.ty, k.name)
        raw = k.raw.format(v=v, i=i)
        if isinstance(k, VK) and k.pre:
            self.pre.append(k.pre.format(v=v, i=i))

        def tk(x):
            return 'tick(%d, %s)' % (self.tickno(), x) if ticked else x

        if vs == 'plain':
            txt, en, alt = name_for(f.namesyn)
            return '%s = %s' % (txt, tk(raw)), self.e(en, alt, k.exp.format(v=v, i=i)), (en, alt)
        if vs in ('disp', 'dbg', 'dispfn', 'dbgfn'):
            txt, en, alt = name_for(f.namesyn)
            fm = '{}' if vs in ('disp', 'dispfn') else '{:?}'
            rec = dbg2(fm, raw)
            if vs == 'disp':
                m = '%s = %%%s' % (txt, tk(raw))
            elif vs == 'dbg':
                m = '%s = ?%s' % (txt, tk(raw))
            elif vs == 'dispfn':
                m = '%s = %s' % (txt, tk('tracing::field::display(%s)' % raw))
            else:
                m = '%s = %s' % (txt, tk('tracing::field::debug(%s)' % raw))
            return m, self.e(en, alt, rec), (en, alt)
        if vs in ('sh', 'sh_disp', 'sh_dbg'):
            n = self.uniq(IDENTS)
            self.pre.append('let %s = %s;' % (n, raw))
            if vs == 'sh':
                return n, self.e(n, None, k.exp.format(v=v, i=i)), (n, None)
            fm = '{}' if vs == 'sh_disp' else '{:?}'
            sig = '%' if vs == 'sh_disp' else '?'
            return sig + n, self.e(n, None, dbg2(fm, raw)), (n, None)
        if vs in ('shd', 'shd2', 'shd_disp', 'shd_dbg'):
            w = 'w%d' % i
            tn = self.tickno() if ticked else 127
            if vs == 'shd2':
                self.pre.append('let %s = Dr::new(%d, H2 { inner: H1 { val: %s } });' % (w, tn, raw))
                path = w + '.inner.val'
            else:
                self.pre.append('let %s = Dr::new(%d, H1 { val: %s });' % (w, tn, raw))
                path = w + '.val'
            self.used.add(path)
            if vs in ('shd', 'shd2'):
                return path, self.e(path, None, k.exp.format(v=v, i=i)), (path, None)
            fm = '{}' if vs == 'shd_disp' else '{:?}'
            sig = '%' if vs == 'shd_disp' else '?'
            return sig + path, self.e(path, None, dbg2(fm, raw)), (path, None)
        raise ValueError(vs)

    # -- message -> (macro text, expectation entry)
    def message(self, m):
        form = m.form
        if form == 'lit':
            s = self.rng.choice(['plain message', 'something has happened!', 'yak shaved successfully',
                                 'ünïcödé 🌍 message', 'with {{escaped}} braces', ''])
            return rs_str(s), 'e("message", Rec::Debug(format!(%s)))' % rs_str(s)
        pieces, margs, xargs = [], [], []
        named = []
        for j, k in enumerate(m.kinds):
            v, i = self.param(k.ty, k.name)
            raw = k.raw.format(v=v, i=i)
            specs = SPECS[k.cls] if k.disp else ['{:?}', '{:#?}']
            if form == 'pos':
                sp = '{}' if k.disp else '{:?}'
            elif form in ('spec', 'mixed', 'uni', 'esc', 'named'):
                sp = self.rng.choice(specs)
            elif form == 'inline':
                sp = None
            if form == 'inline' or (form == 'mixed' and j % 2 == 1):
                # captured identifier: the parameter itself (a reference); not tickable
                sp2 = self.rng.choice(['', '' if k.disp else ':?', ':?'])
                if not k.disp:
                    sp2 = ':?'
                pieces.append('{%s%s}' % (v, sp2))
                continue
            if form == 'named' and j % 2 == 0:
                nm = 'arg%d' % j
                pieces.append(sp.replace('{', '{' + nm, 1))
                named.append((nm, raw))
                continue
            pieces.append(sp)
            margs.append(raw)
            xargs.append(raw)
        seps = {'uni': [' → ', ' ✓ ', ' ü '], 'esc': [' {{', '}} ', ' {{}} ']}.get(form, [' ', ', ', ' / ', '='])
        fmt = self.rng.choice(['msg', 'x', 'the answer to', '', 'quux'])
        for p in pieces:
            fmt += self.rng.choice(seps) + p
        if form == 'esc':
            fmt += ' {{tail}}'
        mt = [rs_str_fmt(fmt)] + ['tick(%d, %s)' % (self.tickno(), a) for a in margs]
        xt = [rs_str_fmt(fmt)] + xargs
        for nm, raw in named:
            mt.append('%s = tick(%d, %s)' % (nm, self.tickno(), raw))
            xt.append('%s = %s' % (nm, raw))
        return ', '.join(mt), 'e("message", Rec::Debug(format!(%s)))' % ', '.join(xt)

    # -- whole case
    def render(self):
        c, n = self.c, self.idx
        fam = c.family()
        ftxt, fexp, declared = [], [], []
        for f in c.fields:
            if fam == 'probe':
                txt, en, alt = self.name_for(f.namesyn)
                ftxt.append(txt)
                declared.append((en, alt))
                continue
            t, x, d = self.field(f)
            ftxt.append(t)
            declared.append(d)
            if x:
                fexp.append(x)
        mtxt = mexp = None
        if c.msg is not None:
            mtxt, mexp = self.message(c.msg)
        pfx = []
        for p in c.prefix:
            if p == 'name':
                pfx.append('name: %s' % rs_str('c10 ev %d' % n))
            elif p == 'target':
                pfx.append('target: %s' % rs_str('c10::t%d' % (n % 7)))
            elif p == 'parent':
                pfx.append('parent: %s' % {'p': 'p', 'id': 'p.id()', 'none': 'None::<tracing::Id>'}[c.parent])
        lvl = 'tracing::Level::%s' % LEVELS[c.level - 1]
        args = list(pfx)
        if c.mac in ('event', 'span', 'enabled'):
            args.append(lvl)
        if fam == 'span':
            args.append(rs_str('s%d' % n))
        if c.brace:
            args.append('{ %s }' % ', '.join(ftxt))
        else:
            args.extend(ftxt)
        if mtxt is not None:
            args.append(mtxt)
        inv = 'tracing::%s!(%s%s)' % (c.mac, ', '.join(args), ',' if c.tc else '')
        first = ([mexp] if mexp else []) + fexp

        # later operations on the span
        later_stmts, later_exp = [], []
        for op in c.later:
            kind = op[0]
            if kind in ('record_str', 'record_field', 'record_undeclared'):
                which, k = op[1], op[2]
                if k is None:
                    raw, exp = 'tracing::field::Empty', None
                else:
                    v, i = self.param(k.ty, k.name)
                    raw = k.raw.format(v=v, i=i)
                    if k.pre:
                        self.pre.append(k.pre.format(v=v, i=i))
                    exp = k.exp.format(v=v, i=i)
                if kind == 'record_undeclared':
                    later_stmts.append('span.record("no_such_field_%d", %s);' % (n, raw))
                    continue
                en, alt = declared[which]
                nm = rs_str(en)
                if alt is not None:
                    # raw identifier: the declared name is either spelling
                    nm = '(if span.has_field(%s) { %s } else { %s })' % (rs_str(en), rs_str(en), rs_str(alt))
                if kind == 'record_str':
                    later_stmts.append('span.record(%s, %s);' % (nm, raw))
                else:
                    later_stmts.append('if let Some(f) = span.field(%s) { span.record(&f, %s); }' % (nm, raw))
                if exp is not None:
                    later_exp.append('vec![%s]' % self.e(en, alt, exp))
            elif kind == 'record_all':
                # all declared fields, in declaration order (the documented use)
                parts, exps = [], []
                for (en, alt), f in zip(declared, op[1]):
                    t, x, _ = self.field(f, ticked=False, preset=(en, en, alt))
                    parts.append(t)
                    if x:
                        exps.append(x)
                later_stmts.append('tracing::record_all!(span, %s);' % ', '.join(parts))
                if exps:
                    later_exp.append('vec![%s]' % ', '.join(exps))
            elif kind == 'record_all_subset':
                # record_all! naming only ONE of the declared fields (not shown in the
                # record_all! documentation; judged separately by the driver)
                which, k = op[1], op[2]
                v, i = self.param(k.ty, k.name)
                raw = k.raw.format(v=v, i=i)
                if k.pre:
                    self.pre.append(k.pre.format(v=v, i=i))
                en, alt = declared[which]
                later_stmts.append('tracing::record_all!(span, %s = %s);' % (en, raw))
                later_exp.append('vec![%s]' % self.e(en, alt, k.exp.format(v=v, i=i)))
            elif kind in ('foreign_record', 'foreign_record_all'):
                k = op[1]
                v, i = self.param(k.ty, k.name)
                raw = k.raw.format(v=v, i=i)
                if k.pre:
                    self.pre.append(k.pre.format(v=v, i=i))
                en0 = declared[0][0]
                aux = 'let other = tracing::%s!(%s"s%d_aux", zz = tracing::field::Empty, %s = tracing::field::Empty);' % (
                    c.mac, (lvl + ', ') if c.mac == 'span' else '', n, en0)
                later_stmts.append(aux)
                if kind == 'foreign_record':
                    # a Field of another callsite that has the same name as one of ours
                    later_stmts.append('if let Some(f) = other.field(%s) { span.record(&f, %s); }' % (rs_str(en0), raw))
                    later_stmts.append('if let Some(f) = other.field("zz") { span.record(&f, %s); }' % raw)
                else:
                    later_stmts.append(
                        'if let (Some(f), Some(meta)) = (other.field("zz"), span.metadata()) {'
                        ' let val = %s;'
                        ' span.record_all(&meta.fields().value_set(&[(&f, Some(&val as &dyn tracing::field::Value))])); }' % raw)
            else:
                raise ValueError(kind)

        ps = ''.join(', %s: &%s' % (v, ty) for v, ty, _ in self.params)
        call = ''.join(', &%s' % v for v, _, _ in self.params)
        xps = ', '.join('%s: &%s' % (v, ty) for v, ty, _ in self.params)
        xcall = ', '.join('&%s' % v for v, _, _ in self.params)
        out = []
        out.append('// ---- case %d: %s' % (n, self.form_sig()))
        out.extend(self.consts)
        out.append('#[inline(never)]')
        if fam == 'event':
            out.append('pub fn m%d(p: &tracing::Span%s) {' % (n, ps))
            out.extend('    ' + s for s in self.pre)
            out.append('    %s;' % inv)
            out.append('}')
        elif fam == 'span':
            out.append('pub fn m%d(p: &tracing::Span%s) -> bool {' % (n, ps))
            out.extend('    ' + s for s in self.pre)
            out.append('    let span = %s;' % inv)
            out.extend('    ' + s for s in later_stmts)
            out.append('    span.is_disabled()')
            out.append('}')
        else:
            out.append('pub fn m%d(p: &tracing::Span%s) -> bool {' % (n, ps))
            out.append('    %s' % inv)
            out.append('}')
        out.append('pub fn x%d(%s) -> (Vec<E>, Vec<Vec<E>>) {' % (n, xps))
        out.append('    (vec![%s], vec![%s])' % (', '.join(first), ', '.join(later_exp)))
        out.append('}')
        out.append('pub fn c%d(s: &mut Src, p: &tracing::Span) -> Outcome {' % n)
        for v, ty, _ in self.params:
            out.append('    let %s: %s = s.gen();' % (v, ty))
        out.append('    let (first, later) = x%d(%s);' % (n, xcall))
        out.append('    let inputs = if s.show { vec![%s] } else { vec![] };' % ', '.join(
            'format!("%s: %s = {}", %s.show())' % (v, ty.replace('{', '{{').replace('}', '}}'), v) for v, ty, _ in self.params))
        out.append('    reset_ticks();')
        if fam == 'event':
            out.append('    m%d(p%s);' % (n, call))
            tail = 'span_disabled: None, probe: None'
        elif fam == 'span':
            out.append('    let d = m%d(p%s);' % (n, call))
            tail = 'span_disabled: Some(d), probe: None'
        else:
            out.append('    let r = m%d(p%s);' % (n, call))
            tail = 'span_disabled: None, probe: Some(r)'
        out.append('    Outcome { inputs, nticks: %d, first, later, %s }' % (self.nt, tail))
        out.append('}')
        kind = {'event': 'Kind::Event', 'span': 'Kind::Span', 'probe': 'Kind::Probe'}[fam]
        table = ('Case { id: %d, kind: %s, mac: %s, level: %d, form: %s, types: %s, src: %s, call: c%d },' % (
            n, kind, rs_str(c.mac + '!'), c.level, rs_str(self.form_sig()), rs_str(self.type_sig()), rs_str(inv), n))
        return '\n'.join(out), table

    def form_sig(self):
        c = self.c
        fs = ';'.join('%s=%s' % (f.namesyn, f.valsyn) for f in c.fields)
        parts = [c.mac + '!', '+'.join(c.prefix) + ('(' + c.parent + ')' if 'parent' in c.prefix else ''), fs]
        if c.msg is not None:
            parts.append('msg:' + c.msg.form + ('/brace' if c.brace else ''))
        if c.tc:
            parts.append('trailing-comma')
        if c.later:
            parts.append('later:' + ','.join(op[0] for op in c.later))
        return ' | '.join(parts)

    def type_sig(self):
        return ','.join(k for _, _, k in self.params) or '-'


def rs_str_fmt(s):
    return rs_str(s)


# ---------------------------------------------------------------------------- corpus plan

EVENT_PREFIXES = [[], ['name'], ['target'], ['parent'], ['name', 'target'], ['name', 'parent'],
                  ['target', 'parent'], ['name', 'target', 'parent']]
SPAN_PREFIXES = [[], ['target'], ['parent'], ['target', 'parent']]
PARENTS = ['p', 'id', 'none']


def event_macros():
    return [('event', None)] + [(m, lv + 1) for lv, m in enumerate(EVENT_SHORT)]


def span_macros():
    return [('span', None)] + [(m, lv + 1) for lv, m in enumerate(SPAN_SHORT)]


SH_OF = {'shd': 'sh', 'shd2': 'sh', 'shd_disp': 'sh_disp', 'shd_dbg': 'sh_dbg'}


def fixup(c):
    """Forms the pinned macros do not parse (found by compiling the corpus; compile-time
    behaviour is outside what a runtime monitor can judge) are moved to the nearest form
    that does parse.  Rules, all for the level shorthands trace!..error! only:
      * with a `name:` and/or `target:` prefix the first field must not have a dotted name
        or path ("local ambiguity" in the `$($k:ident).+ $($field:tt)*` arms) and must not
        be a string-literal / constant name (taken for the format string);
      * with a `parent:`-only prefix the first field must not be a literal / constant name,
        and a lone shorthand field needs a trailing comma (else taken for the format string)."""
    if c.family() != 'event':
        return c
    if c.brace and c.msg is None:
        c.brace = False
    if c.mac == 'event' or not c.fields or c.brace:
        return c
    f = c.fields[0]
    named = 'name' in c.prefix or 'target' in c.prefix
    if named:
        if f.valsyn in SH_OF:
            f.valsyn = SH_OF[f.valsyn]
        if f.namesyn in ('dotted', 'lit', 'const') and f.valsyn not in ('sh', 'sh_disp', 'sh_dbg'):
            f.namesyn = 'ident'
    elif c.prefix == ['parent']:
        if f.namesyn in ('lit', 'const'):
            f.namesyn = 'ident'
        if len(c.fields) == 1 and c.msg is None and f.valsyn in ('sh', 'sh_disp', 'sh_dbg', 'shd', 'shd2', 'shd_disp', 'shd_dbg'):
            c.tc = True
    return c


def plan(seed, nrandom):
    rng = random.Random(1000 + seed)
    rot = seed * 7
    cases = []

    def add(c):
        cases.append(fixup(c))

    all_macros = event_macros() + span_macros()
    namesyns = ['ident', 'dotted', 'lit', 'const', 'raw']

    def lvl_of(fixed, i):
        return fixed if fixed is not None else 1 + (i % 5)

    def prefixes_for(mac, i):
        fam_span = mac == 'span' or mac.endswith('_span')
        pool = SPAN_PREFIXES if fam_span else EVENT_PREFIXES
        return pool[i % len(pool)]

    # S1: every plain value kind with half of the macros (the Value impl does not depend on
    # the macro; every kind still meets event!, span!, event and span shorthands), two
    # fields per case
    for ki, k in enumerate(VKS):
        for r in range(6):
            mi = (ki + rot + 2 * r + (r // 3)) % len(all_macros)
            mac, fixed = all_macros[mi]
            i = ki + mi * 3 + rot
            k2 = VKS[(ki * 5 + mi + 11 + rot) % len(VKS)]
            ns1 = namesyns[i % 5]
            ns2 = namesyns[(i // 5 + 1) % 5]
            pf = prefixes_for(mac, i // 3)
            add(CaseSpec(mac, lvl_of(fixed, i), pf, [Fld(ns1, 'plain', k), Fld(ns2, 'plain', k2)],
                         tc=(i % 4 == 0), parent=PARENTS[i % 3]))

    # S8: every arm of valueset! / fieldset! with every macro: name class x sigil x position
    # ("rest" arm = followed by more tokens, "last" arm = final field without a comma), with
    # value types whose Display and Debug texts differ
    differ = [DK_BY[n] for n in ('str', 'string', 'char', 'dd', 'terr', 'ref_string')]
    arms = [(ns, vs) for ns in ('ident', 'dotted', 'lit', 'const') for vs in ('plain', 'disp', 'dbg')]
    arms += [('ident', vs) for vs in ('sh', 'sh_disp', 'sh_dbg', 'shd', 'shd_disp', 'shd_dbg')]

    def arm_field(a, i):
        ns, vs = a
        if vs in ('plain', 'sh', 'shd'):
            return Fld(ns, vs, VKS_SH[(i * 13 + 5) % len(VKS_SH)])
        return Fld(ns, vs, differ[i % len(differ)])

    for mi, (mac, fixed) in enumerate(all_macros):
        for t in range(len(arms)):
            i = mi * 37 + t + rot
            pf = prefixes_for(mac, i) if mac in ('event', 'span') or mac in SPAN_SHORT else []
            add(CaseSpec(mac, lvl_of(fixed, i), pf, [arm_field(arms[t], i), arm_field(arms[(t + 7) % len(arms)], i + 1)],
                         parent=PARENTS[i % 3]))

    # S2: sigils and shorthands, alone / first / last
    sig_syn = ['disp', 'dbg', 'dispfn', 'dbgfn', 'sh', 'sh_disp', 'sh_dbg', 'shd', 'shd2', 'shd_disp', 'shd_dbg']
    for mi, (mac, fixed) in enumerate(all_macros):
        for si, vs in enumerate(sig_syn):
            for pos in range(3):
                i = mi * 31 + si * 3 + pos + rot
                if vs in ('disp', 'dispfn', 'sh_disp', 'shd_disp'):
                    k = DKS_DISP[i % len(DKS_DISP)]
                elif vs in ('dbg', 'dbgfn', 'sh_dbg', 'shd_dbg'):
                    k = DKS[i % len(DKS)]
                else:
                    k = VKS_SH[i % len(VKS_SH)]
                ns = ['ident', 'dotted', 'lit', 'const'][i % 4]
                other = Fld('ident', 'plain', VKS[(i * 3) % len(VKS)])
                main = Fld(ns, vs, k)
                fields = [main] if pos == 0 else ([main, other] if pos == 1 else [other, main])
                pf = prefixes_for(mac, i // 2)
                add(CaseSpec(mac, lvl_of(fixed, i), pf, fields, tc=(i % 5 == 0), parent=PARENTS[i % 3]))

    # S3: format-string messages
    msg_forms = ['lit', 'pos', 'inline', 'named', 'spec', 'esc', 'uni', 'mixed']
    for mi, (mac, fixed) in enumerate(event_macros()):
        for fi, form in enumerate(msg_forms):
            for shape in range(3):  # 0: message only, 1: fields then message, 2: { fields }, message
                i = mi * 17 + fi * 3 + shape + rot
                nargs = 0 if form == 'lit' else 1 + (i % 3)
                pool = DKS_DISP if form in ('pos', 'spec', 'named', 'uni', 'esc') and i % 3 else DKS
                kinds = [pool[(i * 7 + j * 3) % len(pool)] for j in range(nargs)]
                fields = []
                if shape > 0:
                    fields = [Fld(['ident', 'dotted'][i % 2], 'plain', VKS[(i * 5) % len(VKS)]),
                              Fld('ident', ['dbg', 'disp', 'plain'][i % 3],
                                  (DKS_DISP[(i) % len(DKS_DISP)] if i % 3 < 2 else VKS[(i * 11) % len(VKS)]))]
                    if i % 4 == 0:
                        fields = fields[:1]
                add(CaseSpec(mac, lvl_of(fixed, i), prefixes_for(mac, i), fields, Msg(form, kinds),
                             tc=(i % 6 == 0), brace=(shape == 2), parent=PARENTS[i % 3]))

    # S4: every prefix combination with every macro
    for mi, (mac, fixed) in enumerate(all_macros):
        fam_span = mac == 'span' or mac.endswith('_span')
        pool = SPAN_PREFIXES if fam_span else EVENT_PREFIXES
        for pi, pf in enumerate(pool):
            for shape in range(2 if fam_span else 3):
                i = mi * 13 + pi * 3 + shape + rot
                fields, msg = [], None
                if shape in (0, 2):
                    fields = [Fld('ident', 'plain', VKS[(i * 3) % len(VKS)]),
                              Fld('dotted', ['disp', 'dbg'][i % 2], DKS_DISP[i % len(DKS_DISP)])]
                if shape in (1, 2) and not fam_span:
                    msg = Msg(['pos', 'lit', 'inline'][i % 3], [DKS_DISP[(i * 5) % len(DKS_DISP)]])
                if fam_span and shape == 1:
                    fields = []  # span with a name only
                for par in (PARENTS if 'parent' in pf else ['p']):
                    add(CaseSpec(mac, lvl_of(fixed, i), pf, fields, msg, tc=(i % 2 == 0 and bool(fields or msg)), parent=par))

    # S5: spans: Empty now, record later; undeclared / foreign fields; re-record; record_all!
    scen = ['empty_then_str', 'empty_then_field', 'undeclared', 'rerecord', 'record_empty', 'record_all',
            'foreign_record', 'foreign_record_all', 'tempty', 'record_all_subset']
    for mi, (mac, fixed) in enumerate(span_macros()):
        for si, sc in enumerate(scen):
            for rep in range(2):
                i = mi * 19 + si * 2 + rep + rot
                k1 = VKS_SH[(i * 3) % len(VKS_SH)]
                k2 = VKS_SH[(i * 7 + 5) % len(VKS_SH)]
                k3 = VKS_SH[(i * 11 + 2) % len(VKS_SH)]
                ns = ['ident', 'dotted', 'lit', 'const', 'raw'][i % 5]
                f_set = Fld('ident', 'plain', k1)
                f_empty = Fld(ns, 'empty')
                f_last = Fld('dotted', 'plain', k2)
                fields = [f_set, f_empty, f_last]
                later = []
                if sc == 'empty_then_str':
                    later = [('record_str', 1, k3)]
                elif sc == 'empty_then_field':
                    later = [('record_field', 1, k3), ('record_str', 1, k1)]
                elif sc == 'undeclared':
                    later = [('record_undeclared', None, k3), ('record_str', 1, k2)]
                elif sc == 'rerecord':
                    later = [('record_str', 0, k3), ('record_str', 2, k3), ('record_field', 0, k2)]
                elif sc == 'record_empty':
                    later = [('record_str', 1, None), ('record_str', 0, None), ('record_str', 1, k3)]
                elif sc == 'record_all':
                    if ns in ('lit', 'const', 'raw'):
                        f_empty = Fld(['ident', 'dotted'][i % 2], 'empty')
                        fields = [f_set, f_empty, f_last]
                    d1 = DKS_DISP[i % len(DKS_DISP)]
                    later = [('record_all', [Fld('ident', 'plain', k3), Fld('ident', ['disp', 'dbg'][i % 2], d1),
                                             Fld('ident', 'plain', k1)])]
                elif sc == 'record_all_subset':
                    f_empty = Fld(['ident', 'dotted'][i % 2], 'empty')
                    fields = [f_set, f_empty, f_last]
                    later = [('record_all_subset', 1, k3)]
                elif sc == 'foreign_record':
                    later = [('foreign_record', k3)]
                elif sc == 'foreign_record_all':
                    later = [('foreign_record_all', k3)]
                elif sc == 'tempty':
                    fields = [Fld(ns, 'tempty'), f_set]
                    later = [('record_str', 0, k3)]
                add(CaseSpec(mac, lvl_of(fixed, i), prefixes_for(mac, i), fields, later=later, tc=(i % 3 == 0),
                             parent=PARENTS[i % 3]))

    # S6: enabled!
    for lv in range(1, 6):
        for pi, pf in enumerate([[], ['target']]):
            for shape in range(3):
                fields = [[], [Fld('ident', 'name')], [Fld('ident', 'name'), Fld('dotted', 'name')]][shape]
                add(CaseSpec('enabled', lv, pf, fields, probe=True))

    # S7: seeded random combinations, plus the documented maximum of 32 fields
    def rand_field(mac, first, pf):
        fam_span = mac == 'span' or mac.endswith('_span')
        vs = rng.choice(['plain'] * 6 + ['disp', 'dbg', 'dispfn', 'dbgfn', 'sh', 'sh_disp', 'sh_dbg', 'shd', 'shd2',
                                        'shd_disp', 'shd_dbg'] + (['empty'] if fam_span else []))
        ns = rng.choice(['ident'] * 3 + ['dotted', 'dotted', 'lit', 'const', 'raw'])
        if vs in ('disp', 'dispfn', 'sh_disp', 'shd_disp'):
            k = rng.choice(DKS_DISP)
        elif vs in ('dbg', 'dbgfn', 'sh_dbg', 'shd_dbg'):
            k = rng.choice(DKS)
        elif vs in ('sh', 'shd', 'shd2'):
            k = rng.choice(VKS_SH)
        elif vs == 'empty':
            k = None
        else:
            k = rng.choice(VKS)
        return Fld(ns, vs, k)

    for r in range(nrandom):
        mac, fixed = rng.choice(all_macros)
        fam_span = mac == 'span' or mac.endswith('_span')
        pf = rng.choice(SPAN_PREFIXES if fam_span else EVENT_PREFIXES)
        nf = rng.choice([0, 1, 2, 2, 3, 3, 4, 5, 6, 8]) if r % 40 else 32
        fields = [rand_field(mac, j == 0, pf) for j in range(nf)]
        msg = None
        brace = False
        if not fam_span and (nf == 0 or rng.random() < 0.5):
            form = rng.choice(msg_forms)
            kinds = [rng.choice(DKS if rng.random() < 0.3 else DKS_DISP) for _ in range(0 if form == 'lit' else rng.randint(1, 4))]
            msg = Msg(form, kinds)
            brace = nf > 0 and rng.random() < 0.25
        if fam_span or msg is None:
            if nf == 0 and not fam_span:
                continue
        later = []
        if fam_span and fields and rng.random() < 0.3:
            idxs = [j for j, f in enumerate(fields) if f.valsyn not in ('shd', 'shd2', 'shd_disp', 'shd_dbg')]
            for _ in range(rng.randint(1, 3)):
                if idxs and rng.random() < 0.8:
                    later.append((rng.choice(['record_str', 'record_field']), rng.choice(idxs),
                                  rng.choice(VKS_SH + [None])))
                else:
                    later.append(('record_undeclared', None, rng.choice(VKS_SH)))
        add(CaseSpec(mac, fixed if fixed is not None else rng.randint(1, 5), pf, fields, msg,
                     tc=rng.random() < 0.3 and (nf > 0 or msg is not None), brace=brace, later=later,
                     parent=rng.choice(PARENTS)))
    return cases


# ---------------------------------------------------------------------------- output

NFILES = 16


def main():
    ap = argparse.ArgumentParser()
    ap.add_argument('--seed', type=int, default=0)
    ap.add_argument('--out', default=os.path.join(os.path.dirname(os.path.abspath(__file__)), '..', 'checks', 'src', 'gen_c10'))
    ap.add_argument('--random', type=int, default=320)
    ap.add_argument('--sigil-types-display-only', action='store_true',
                    help='use only types that are Display as well as Debug behind `?` (so that a tree in which the '
                         '`%` and `?` arms of valueset! are swapped still compiles; for mutant runs)')
    a = ap.parse_args()
    if a.sigil_types_display_only:
        DKS[:] = DKS_DISP
    specs = plan(a.seed, a.random)
    rng = random.Random(77 + a.seed)
    os.makedirs(a.out, exist_ok=True)
    bodies = [[] for _ in range(NFILES)]
    tables = [[] for _ in range(NFILES)]
    for idx, spec in enumerate(specs):
        em = Emit(idx, spec, rng)
        body, table = em.render()
        if em.nt > 120:
            raise RuntimeError('too many tick counters in case %d' % idx)
        bodies[idx % NFILES].append(body)
        tables[idx % NFILES].append(table)
    hdr = ('// @generated by harness/gen/c10.py --seed %d --random %d ; do not edit.\n'
           '#![allow(unused_variables, unused_mut, unused_imports, unused_parens, clippy::all)]\n'
           'use crate::support::*;\n\n') % (a.seed, a.random)
    for i in range(NFILES):
        with open(os.path.join(a.out, 'g%02d.rs' % i), 'w', encoding='utf-8') as f:
            f.write(hdr)
            f.write('\n\n'.join(bodies[i]))
            f.write('\n\npub static CASES: &[Case] = &[\n    ')
            f.write('\n    '.join(tables[i]))
            f.write('\n];\n')
    with open(os.path.join(a.out, 'mod.rs'), 'w', encoding='utf-8') as f:
        f.write('// @generated by harness/gen/c10.py --seed %d --random %d ; do not edit.\n' % (a.seed, a.random))
        for i in range(NFILES):
            f.write('mod g%02d;\n' % i)
        f.write('pub const CORPUS_SEED: u64 = %d;\n' % a.seed)
        f.write('pub fn all() -> Vec<&\'static crate::support::Case> {\n    let mut v = vec![];\n')
        for i in range(NFILES):
            f.write('    v.extend(g%02d::CASES.iter());\n' % i)
        f.write('    v.sort_by_key(|c| c.id);\n    v\n}\n')
    print('c10.py: seed %d: %d cases -> %s' % (a.seed, len(specs), a.out), file=sys.stderr)


if __name__ == '__main__':
    main()
