#!/usr/bin/env python3
"""C17 corpus generator: twin functions (plain / #[tracing::instrument]) with the same body.

usage:  python3 c17.py <corpus-index> <seed> <n-twins>  >  ../checks/src/gen_c17/corpus_<k>.rs
        python3 c17.py --all        # regenerate the committed corpora (0: seed 0; 1..3: seeds 101..103)

stdlib only; every choice comes from random.Random(seed).  The output is committed, a build never
needs python.  Only attribute forms that tracing-attributes/src/attr.rs of the pinned tree parses are
emitted (no skip_all; `parent`/`follows_from` are written BEFORE `target`, because attr.rs rejects
`parent = ..`/`follows_from = ..` once a target has been seen).
"""
import random
import re
import sys
import os

KIND_CYCLE = ["sync", "async_fn", "sync", "boxed", "async_trait", "sync", "async_fn", "impl_fut", "sync", "async_fn"]
# (ret form, err form) cycle; None = absent, "*" = pick a random form
RE_CYCLE = [(None, None), ("*", None), (None, "*"), ("*", "*"), ("disp", None), (None, None), ("*", "*"), ("plain", None)]

LEVEL_FORMS = [
    ('"trace"', 1, "str"), ('"DEBUG"', 2, "str"), ('"Info"', 3, "str"), ('"warn"', 4, "str"), ('"error"', 5, "str"),
    ("1", 1, "num"), ("2", 2, "num"), ("3", 3, "num"), ("4", 4, "num"), ("5", 5, "num"),
    ("tracing::Level::DEBUG", 2, "path"), ("Level::WARN", 4, "path"), ("tracing::Level::TRACE", 1, "path"),
    ("Level::ERROR", 5, "path"),
]

RET_KINDS_ANY = ["unit", "i64", "string", "wrap", "opt", "tuple", "res_i64", "res_unit", "res_string"]
RET_DEBUGGABLE = {"unit", "i64", "string", "wrap", "opt", "tuple", "res_i64", "res_unit", "res_string", "impl_tr_dbg", "ref_str"}
RET_DISPLAYABLE = {"i64", "string", "wrap", "ref_str"}
RET_RESULT = {"res_i64", "res_unit", "res_string"}
RET_OK_DISPLAYABLE = {"res_i64", "res_string"}
RET_TYPES = {
    "unit": "()", "i64": "i64", "string": "String", "wrap": "Wrap", "opt": "Option<i64>", "tuple": "(i64, String)",
    "res_i64": "Result<i64, MyErr>", "res_unit": "Result<(), MyErr>", "res_string": "Result<String, MyErr>",
    "impl_tr_dbg": "impl Tr + std::fmt::Debug", "impl_fn": "impl Fn(i64) -> i64", "impl_iter": "impl Iterator<Item = i64>",
    "impl_disp": "impl std::fmt::Display", "ref_str": "&'a str",
}


class Bind:
    def __init__(self, name, view, ival, exp, droppable=False, disp_exp=None):
        self.name = name        # user-visible identifier
        self.view = view        # rust expr over the parameter giving an i64 (None: no view)
        self.ival = ival        # rust expr over `inp` giving the same i64 at function entry
        self.exp = exp          # rust expr (FExp) = expected default recording; uses NAME placeholder
        self.droppable = droppable
        self.disp_exp = disp_exp  # FExp when recorded with `%name`
        self.spelled = 0          # 1 / 2: primitive type written plainly / as a qualified path


class Param:
    def __init__(self, kind):
        self.kind = kind
        self.pat = None
        self.ty = None
        self.decl_name = None     # name usable in a trait declaration
        self.store = []
        self.call = None
        self.binds = []
        self.generics = []
        self.mut_stmts = []       # templates with {v}
        self.post = None
        self.needs_skip = False
        self.role = None          # parent / follows_ids / follows_span


class Slots:
    def __init__(self, rng):
        self.v = 0
        self.s = 0
        self.b = 0

    def nv(self):
        r = self.v % 8
        self.v += 1
        return r

    def ns(self):
        r = self.s % 3
        self.s += 1
        return r

    def nb(self):
        r = self.b % 3
        self.b += 1
        return r


SPELL = [0]


def spell(ty):
    """every third primitive / String parameter type is written as a qualified path: the macro
    decides between typed and Debug recording from the type's LAST path segment"""
    SPELL[0] += 1
    k = SPELL[0] % 6
    if k not in (0, 3):
        return ty
    if ty == "String":
        return "std::string::String" if k == 0 else "::std::string::String"
    return f"::core::primitive::{ty}" if k == 0 else f"std::primitive::{ty}"


def mk_param(kind, i, sl, lt, send):
    """lt: "'a " or ""; send: add Send bounds to generic things"""
    p = Param(kind)
    n = f"p{i}"
    p.decl_name = n
    sendb = " + Send" if send else ""
    ltb = " + 'a" if lt else ""
    if kind in ("i32", "i64", "u8", "u64", "usize"):
        v = sl.nv()
        p.pat, p.ty = n, spell(kind)
        q = 1 if p.ty == kind else 2
        p.store = [f"let s{i} = arg_eval({i}, inp.v[{v}] as {kind});"]
        p.call = f"s{i}"
        p.binds = [Bind(n, f"({n} as i64)", f"inp.v[{v}]", f'f_int("{n}", inp.v[{v}])')]
        p.binds[0].spelled = q
    elif kind == "mut_val":
        v = sl.nv()
        p.pat, p.ty = f"mut {n}", "i64"
        p.store = [f"let s{i} = arg_eval({i}, inp.v[{v}]);"]
        p.call = f"s{i}"
        p.binds = [Bind(n, f"{n}", f"inp.v[{v}]", f'f_int("{n}", inp.v[{v}])')]
        p.mut_stmts = [f"{n} += 1;", f"{n} += {{v}};"]
    elif kind == "bool":
        b = sl.nb()
        p.pat, p.ty = n, spell("bool")
        q = 1 if p.ty == "bool" else 2
        p.store = [f"let s{i} = arg_eval({i}, inp.b[{b}]);"]
        p.call = f"s{i}"
        p.binds = [Bind(n, f"({n} as i64)", f"(inp.b[{b}] as i64)", f'f_bool("{n}", inp.b[{b}])')]
        p.binds[0].spelled = q
    elif kind in ("ref_str", "string", "ref_string"):
        s = sl.ns()
        p.pat = n
        st = spell("String")
        p.ty = {"ref_str": f"&{lt}str", "string": st, "ref_string": f"&{lt}{st}"}[kind]
        p.store = [f"let s{i} = arg_eval({i}, inp.s[{s}].clone());"]
        p.call = {"ref_str": f"s{i}.as_str()", "string": f"s{i}", "ref_string": f"&s{i}"}[kind]
        q = 0 if kind == "ref_str" else (1 if st == "String" else 2)
        p.binds = [Bind(n, f"({n}.len() as i64)", f"(inp.s[{s}].len() as i64)", f'f_str("{n}", &inp.s[{s}])',
                        disp_exp=f'FExp {{ name: "{n}", ok: vec![FV::Dbg(inp.s[{s}].clone())], spelled: 0 }}')]
        p.binds[0].spelled = q
    elif kind in ("sent", "ref_sent", "mut_sent"):
        v = sl.nv()
        base = (i + 1) * 100
        p.pat = n
        p.ty = {"sent": "Sent", "ref_sent": f"&{lt}Sent", "mut_sent": f"&{lt}mut Sent"}[kind]
        m = "mut " if kind == "mut_sent" else ""
        p.store = [f"let {m}s{i} = Sent::arg(arg_eval({i}, {base} + inp.v[{v}] as u32));"]
        p.call = {"sent": f"s{i}", "ref_sent": f"&s{i}", "mut_sent": f"&mut s{i}"}[kind]
        p.binds = [Bind(n, f"({n}.tag as i64)", f"({base} + inp.v[{v}])",
                        f'f_dbg("{n}", format!("Sent({{}})", {base} + inp.v[{v}]))', droppable=(kind == "sent"))]
    elif kind == "mut_i64":
        v = sl.nv()
        p.pat, p.ty = n, f"&{lt}mut i64"
        p.store = [f"let mut s{i} = arg_eval({i}, inp.v[{v}]);"]
        p.call = f"&mut s{i}"
        p.binds = [Bind(n, f"(*{n})", f"inp.v[{v}]", f'f_int("{n}", inp.v[{v}])')]
        p.mut_stmts = [f"*{n} += {{v}};", f"*{n} = *{n} * 2 + 1;"]
        p.post = f"s{i}"
    elif kind == "mut_vec":
        v = sl.nv()
        p.pat, p.ty = n, f"&{lt}mut Vec<i64>"
        p.store = [f"let mut s{i} = arg_eval({i}, vec![inp.v[{v}], inp.v[{v}] + 1]);"]
        p.call = f"&mut s{i}"
        p.binds = [Bind(n, f"({n}.len() as i64)", "2i64",
                        f'f_dbg("{n}", format!("{{:?}}", vec![inp.v[{v}], inp.v[{v}] + 1]))')]
        p.mut_stmts = [f"{n}.push({{v}});"]
        p.post = f"s{i}"
    elif kind == "pt":
        a, b = sl.nv(), sl.nv()
        p.pat, p.ty = n, "Pt"
        p.store = [f"let s{i} = arg_eval({i}, Pt {{ x: inp.v[{a}], y: inp.v[{b}] }});"]
        p.call = f"s{i}"
        p.binds = [Bind(n, f"{n}.x", f"inp.v[{a}]",
                        f'f_dbg("{n}", format!("{{:?}}", Pt {{ x: inp.v[{a}], y: inp.v[{b}] }}))')]
    elif kind == "tup":
        a, b = sl.nv(), sl.nv()
        base = (i + 1) * 100
        p.pat, p.ty = f"({n}a, {n}b)", "(i64, Sent)"
        p.decl_name = None
        p.store = [f"let s{i} = arg_eval({i}, (inp.v[{a}], Sent::arg({base} + inp.v[{b}] as u32)));"]
        p.call = f"s{i}"
        p.binds = [Bind(f"{n}a", f"{n}a", f"inp.v[{a}]", f'f_int("{n}a", inp.v[{a}])'),
                   Bind(f"{n}b", f"({n}b.tag as i64)", f"({base} + inp.v[{b}])",
                        f'f_dbg("{n}b", format!("Sent({{}})", {base} + inp.v[{b}]))', droppable=True)]
    elif kind == "struct_pat":
        a, b = sl.nv(), sl.nv()
        p.pat, p.ty = f"Pt {{ x: {n}x, y: {n}y }}", "Pt"
        p.decl_name = None
        p.store = [f"let s{i} = arg_eval({i}, Pt {{ x: inp.v[{a}], y: inp.v[{b}] }});"]
        p.call = f"s{i}"
        p.binds = [Bind(f"{n}x", f"{n}x", f"inp.v[{a}]", f'f_int("{n}x", inp.v[{a}])'),
                   Bind(f"{n}y", f"{n}y", f"inp.v[{b}]", f'f_int("{n}y", inp.v[{b}])')]
    elif kind == "tstruct":
        a, b = sl.nv(), sl.nv()
        base = (i + 1) * 100
        p.pat, p.ty = f"Pair({n}a, {n}b)", "Pair"
        p.decl_name = None
        p.store = [f"let s{i} = arg_eval({i}, Pair(inp.v[{a}], Sent::arg({base} + inp.v[{b}] as u32)));"]
        p.call = f"s{i}"
        p.binds = [Bind(f"{n}a", f"{n}a", f"inp.v[{a}]", f'f_int("{n}a", inp.v[{a}])'),
                   Bind(f"{n}b", f"({n}b.tag as i64)", f"({base} + inp.v[{b}])",
                        f'f_dbg("{n}b", format!("Sent({{}})", {base} + inp.v[{b}]))', droppable=True)]
    elif kind == "ref_tup":
        a, b = sl.nv(), sl.nv()
        p.pat, p.ty = f"&({n}a, {n}b)", f"&{lt}(i64, i64)"
        p.decl_name = None
        p.store = [f"let s{i} = arg_eval({i}, (inp.v[{a}], inp.v[{b}]));"]
        p.call = f"&s{i}"
        p.binds = [Bind(f"{n}a", f"{n}a", f"inp.v[{a}]", f'f_int("{n}a", inp.v[{a}])'),
                   Bind(f"{n}b", f"{n}b", f"inp.v[{b}]", f'f_int("{n}b", inp.v[{b}])')]
    elif kind in ("generic", "generic_ref"):
        v = sl.nv()
        p.generics = [f"T{i}: Tr + std::fmt::Debug{sendb}{' + Sync' if send and kind == 'generic_ref' else ''}{ltb}"]
        p.pat = n
        p.ty = f"T{i}" if kind == "generic" else f"&{lt}T{i}"
        p.store = [f"let s{i} = arg_eval({i}, Wrap(inp.v[{v}]));"]
        p.call = f"s{i}" if kind == "generic" else f"&s{i}"
        p.binds = [Bind(n, f"{n}.val()", f"inp.v[{v}]", f'f_dbg("{n}", format!("Wrap({{}})", inp.v[{v}]))')]
    elif kind == "impl_tr":
        a, b = sl.nv(), sl.nv()
        p.pat, p.ty = n, f"impl Tr + std::fmt::Debug{sendb}{ltb}"
        p.store = [f"let s{i} = arg_eval({i}, Pt {{ x: inp.v[{a}], y: inp.v[{b}] }});"]
        p.call = f"s{i}"
        p.binds = [Bind(n, f"{n}.val()", f"(inp.v[{a}] + inp.v[{b}])",
                        f'f_dbg("{n}", format!("{{:?}}", Pt {{ x: inp.v[{a}], y: inp.v[{b}] }}))')]
    elif kind == "impl_fn":
        v = sl.nv()
        p.pat, p.ty = n, f"impl Fn(i64) -> i64{sendb}{ltb}"
        p.store = [f"let c{i} = inp.v[{v}];", f"let s{i} = arg_eval({i}, move |z: i64| z * 2 + c{i});"]
        p.call = f"s{i}"
        p.binds = [Bind(n, f"{n}(3)", f"(6 + inp.v[{v}])", None)]
        p.needs_skip = True
    elif kind == "opt":
        v = sl.nv()
        e = f"(if inp.v[{v}] % 3 == 0 {{ None }} else {{ Some(inp.v[{v}]) }})"
        p.pat, p.ty = n, "Option<i64>"
        p.store = [f"let s{i}: Option<i64> = arg_eval({i}, {e});"]
        p.call = f"s{i}"
        p.binds = [Bind(n, f"{n}.unwrap_or(-1)", f"(if inp.v[{v}] % 3 == 0 {{ -1 }} else {{ inp.v[{v}] }})",
                        f'f_dbg("{n}", format!("{{:?}}", {e} as Option<i64>))')]
    elif kind == "span_parent":
        p.pat, p.ty = n, f"&{lt}tracing::Span"
        p.store = [f"let s{i} = arg_eval({i}, cx.outer.clone());"]
        p.call = f"&s{i}"
        p.binds = [Bind(n, None, None, f'f_any("{n}")')]
        p.role = "parent"
    elif kind == "causes_ids":
        p.pat, p.ty = n, f"&{lt}[tracing::Id]"
        p.store = [f"let s{i} = arg_eval({i}, cx.cause_ids.clone());"]
        p.call = f"&s{i}"
        p.binds = [Bind(n, None, None, f'f_any("{n}")')]
        p.role = "follows_ids"
    elif kind == "cause_span":
        p.pat, p.ty = n, f"&{lt}tracing::Span"
        p.store = [f"let s{i} = arg_eval({i}, cx.cause_spans[0].clone());"]
        p.call = f"&s{i}"
        p.binds = [Bind(n, None, None, f'f_any("{n}")')]
        p.role = "follows_span"
    else:
        raise Exception(kind)
    return p


PARAM_KINDS_FULL = ["i32", "i64", "u8", "u64", "usize", "mut_val", "bool", "ref_str", "string", "ref_string", "sent", "ref_sent",
                    "mut_sent", "mut_i64", "mut_vec", "pt", "tup", "struct_pat", "tstruct", "ref_tup", "generic",
                    "generic_ref", "impl_tr", "impl_fn", "opt", "sent", "mut_i64", "i64"]
PARAM_KINDS_TRAIT = ["i32", "i64", "u8", "u64", "bool", "ref_str", "string", "sent", "ref_sent", "mut_sent", "mut_i64", "mut_vec", "pt",
                     "opt", "mut_val", "usize"]


def gen_twin(rng, N, CK):
    kind = KIND_CYCLE[N % len(KIND_CYCLE)]
    ret_form, err_form = RE_CYCLE[(N // len(KIND_CYCLE)) % len(RE_CYCLE)]
    is_async = kind != "sync"
    feats = {}

    # ---------------- return kind
    if err_form:
        rk = rng.choice(sorted(RET_RESULT))
    elif ret_form == "disp":
        rk = rng.choice(sorted(RET_DISPLAYABLE))
    elif ret_form:
        pool = sorted(RET_DEBUGGABLE)
        rk = rng.choice(pool)
    else:
        pool = RET_KINDS_ANY + ["impl_tr_dbg", "impl_fn", "impl_iter", "impl_disp", "ref_str", "unit", "i64", "res_i64"]
        rk = rng.choice(pool)
    if rk.startswith("impl_") and kind != "sync":
        rk = rng.choice(["i64", "wrap", "string"]) if not err_form else rk
    if rk == "ref_str" and kind in ("async_trait",):
        rk = "string"
    send = (kind == "boxed" and rng.random() < 0.6) or (kind == "async_trait" and rng.random() < 0.5)
    need_lt = kind in ("boxed", "impl_fut") or rk == "ref_str"
    lt = "'a " if need_lt else ""

    # ---------------- receiver
    recv = None
    if kind == "async_trait":
        recv = rng.choice(["&self", "&mut self", "&self", "self"])
    elif rng.random() < 0.3:
        recv = rng.choice(["&self", "&mut self", "self"])
    sl = Slots(rng)

    # ---------------- parameters
    npar = rng.choice([0, 1, 1, 2, 2, 2, 3, 3, 4])
    pool = PARAM_KINDS_TRAIT if kind == "async_trait" else PARAM_KINDS_FULL
    kinds = [rng.choice(pool) for _ in range(npar)]
    if rk == "ref_str" and "ref_str" not in kinds:
        kinds.insert(0, "ref_str")
    # attribute roles that need parameters
    parent_form = None
    if rng.random() < 0.28:
        opts = ["none", "param"]
        if recv:
            opts.append("self_span")
        parent_form = rng.choice(opts)
        if parent_form == "param":
            kinds.append("span_parent")
    follows_form = None
    if rng.random() < 0.2:
        follows_form = rng.choice(["ids", "span_arr"])
        kinds.append("causes_ids" if follows_form == "ids" else "cause_span")
    params = [mk_param(k, i, sl, lt, send) for i, k in enumerate(kinds)]
    # boxed methods taking the receiver by reference, all other parameters plain identifiers:
    # written in the shape async-trait <= 0.1.43 expanded to (`async fn inner(_self: &T, ..)` called
    # inside Box::pin) - the one place where the name the user writes (`self`) and the identifier
    # the parameter is bound to (`_self`) differ.  Decided from N only.
    plain_params = all(p.decl_name and p.pat in (p.decl_name, "mut " + p.decl_name) for p in params)
    inner_recv = kind == "boxed" and recv in ("&self", "&mut self") and plain_params and parent_form != "self_span"

    binds = []
    recv_store = []
    recv_post = None
    if recv:
        a, b = sl.nv(), sl.nv()
        recv_store = [f"let mut o = Obj::new(arg_eval(90, inp.v[{a}]), 900 + inp.v[{b}] as u32, cx.outer.clone());"]
        binds.append(Bind("self", "self.k", f"inp.v[{a}]", f'f_dbg("self", format!("Obj {{{{ k: {{}} }}}}", inp.v[{a}]))'))
        if recv == "&mut self":
            recv_post = "o.k"
    for p in params:
        binds.extend(p.binds)

    # ---------------- attribute arguments
    attr = []
    span_name = None
    r = rng.random()
    if r < 0.12:
        attr.append(f'name = "nm_{N}"')
        span_name = f'"nm_{N}"'
        feats["name"] = "kw"
    elif r < 0.2:
        attr.append(f'"bare_{N}"')
        span_name = f'"bare_{N}"'
        feats["name"] = "bare"
    elif r < 0.26:
        attr.append("name = NAME_C")
        span_name = "NAME_C"
        feats["name"] = "const"
    level = 3
    if rng.random() < 0.55:
        txt, level, cls = rng.choice(LEVEL_FORMS)
        attr.append(f"level = {txt}")
        feats["level"] = cls
    # more twins whose span is DEBUG/TRACE while the err event (default ERROR) or an explicitly
    # levelled ret event is more severe (separate stream: the rest of the corpus is unchanged)
    rng2 = random.Random(N * 1000003 + 12345 + CK)
    if (ret_form or err_form) and rng2.random() < 0.4:
        txt, level, cls = rng2.choice([f for f in LEVEL_FORMS if f[1] <= 2])
        attr = [a for a in attr if not a.startswith("level = ")]
        attr.append(f"level = {txt}")
        feats["level"] = cls
    par_exp = "Contextual"
    if parent_form == "none":
        attr.append("parent = None")
        par_exp = "Root"
    elif parent_form == "param":
        pp = [p for p in params if p.role == "parent"][0]
        attr.append(f"parent = {pp.binds[0].name}")
        par_exp = "Outer"
    elif parent_form == "self_span":
        attr.append("parent = &self.span")
        par_exp = "Outer"
    if parent_form:
        feats["parent"] = parent_form
    follows = 0
    if follows_form == "ids":
        fp = [p for p in params if p.role == "follows_ids"][0]
        attr.append(f"follows_from = {fp.binds[0].name}")
        follows = 2
    elif follows_form == "span_arr":
        fp = [p for p in params if p.role == "follows_span"][0]
        attr.append(f"follows_from = [{fp.binds[0].name}]")
        follows = 1
    if follows_form:
        feats["follows"] = follows_form
    target = "module_path!()"
    r = rng.random()
    if r < 0.15:
        attr.append(f'target = "c17t::t{N % 7}"')
        target = f'"c17t::t{N % 7}"'
        feats["target"] = "lit"
    elif r < 0.22:
        attr.append("target = TARGET_C")
        target = "TARGET_C"
        feats["target"] = "const"

    # skip
    skips = set()
    for p in params:
        if p.needs_skip:
            skips.update(b.name for b in p.binds)
        if p.role and rng.random() < 0.75:
            skips.update(b.name for b in p.binds)
    if rng.random() < 0.45:
        for b in binds:
            if rng.random() < 0.4:
                skips.add(b.name)
    if inner_recv and (int(N) * 48271 >> 2) % 2 == 0:
        skips.add("self")
    if skips:
        feats["skip"] = "some" if len(skips) < len(binds) else "all"

    # fields
    views = [b for b in binds if b.view is not None]
    custom = []      # (attr text, exp code or None, name)
    empty = []
    field_evals = []
    overridden = set()
    fforms = set()
    if rng.random() < 0.5:
        nf = rng.choice([1, 1, 2, 2, 3])
        avail = ["lit_s", "lit_b", "lit_n", "empty"]
        if views:
            avail += ["expr", "expr", "counted", "disp", "dbg", "override", "shorthand_dbg", "dotted"]
        if any(b.disp_exp for b in binds):
            avail += ["shorthand_disp", "shorthand_disp"]
        for j in range(nf):
            form = rng.choice(avail)
            cn = f"c{j}"
            if form == "expr":
                a, b = rng.choice(views), rng.choice(views)
                m = rng.choice([1, 2, 3])
                custom.append((f"{cn} = {a.view} + {b.view} * {m}", f'f_int("{cn}", {a.ival} + {b.ival} * {m})', cn))
            elif form == "counted":
                a = rng.choice(views)
                k = 700 + j
                custom.append((f"{cn} = count_eval({k}, {a.view})", f'f_int("{cn}", {a.ival})', cn))
                field_evals.append(k)
            elif form == "disp":
                a = rng.choice(views)
                custom.append((f"{cn} = %Wrap({a.view})", f'f_dbg("{cn}", format!("w<{{}}>", {a.ival}))', cn))
            elif form == "dbg":
                a = rng.choice(views)
                custom.append((f"{cn} = ?Pt {{ x: {a.view}, y: 1 }}",
                               f'f_dbg("{cn}", format!("{{:?}}", Pt {{ x: {a.ival}, y: 1 }}))', cn))
            elif form == "dotted":
                # a dotted custom name whose LAST (or first) segment is a parameter's name: another
                # field altogether, the parameter keeps its own automatic field
                cands = [b for b in views if b.name != "self"]
                if not cands:
                    continue
                t = rng.choice(cands)
                a = rng.choice(views)
                dn = rng.choice([f"req{j}.{t.name}", f"a{j}.b.{t.name}", f"{t.name}.len{j}", f"{t.name}.x{j}.{t.name}"])
                custom.append((f"{dn} = {a.view} + 1000", f'f_int("{dn}", {a.ival} + 1000)', dn))
            elif form == "lit_s":
                custom.append((f'{cn} = "a b\\"c"', f'f_str("{cn}", "a b\\"c")', cn))
            elif form == "lit_b":
                custom.append((f"{cn} = true", f'f_bool("{cn}", true)', cn))
            elif form == "lit_n":
                custom.append((f"{cn} = 7", f'f_int("{cn}", 7)', cn))
            elif form == "empty":
                if "late" in empty:
                    continue
                custom.append(("late", None, "late"))
                empty.append("late")
            elif form == "override":
                cands = [b for b in views if b.name not in overridden and b.name != "self"]
                if not cands:
                    continue
                t = rng.choice(cands)
                a = rng.choice(views)
                ce = f'f_int("{t.name}", {a.ival} + 1000)'
                # the docs call a field/argument name overlap a compile error, the macro lets the custom field
                # win: whichever value is recorded for that name is accepted
                if t.exp:
                    ce = f"f_or({ce}, {t.exp})"
                custom.append((f"{t.name} = {a.view} + 1000", ce, t.name))
                overridden.add(t.name)
            elif form == "shorthand_dbg":
                cands = [b for b in binds if b.exp and b.name not in overridden and b.name != "self" and b.view is not None]
                if not cands:
                    continue
                t = rng.choice(cands)
                custom.append((f"?{t.name}", t.exp, t.name))
                overridden.add(t.name)
            elif form == "shorthand_disp":
                cands = [b for b in binds if b.disp_exp and b.name not in overridden]
                if not cands:
                    continue
                t = rng.choice(cands)
                custom.append((f"%{t.name}", t.disp_exp, t.name))
                overridden.add(t.name)
            fforms.add(form)
        if custom:
            attr.append("fields(" + ", ".join(c[0] for c in custom) + ")")
            feats["fields"] = "+".join(sorted(fforms))
    # skip(..) of a name that has a same-named custom field: legal; keep it sometimes
    if skips:
        # the attribute puts skip anywhere; emit before fields half of the time
        txt = "skip(" + ", ".join(sorted(skips)) + ")"
        if rng.random() < 0.5:
            attr.insert(0, txt)
        else:
            attr.append(txt)

    # ret / err
    ret_exp = "None"
    err_exp = "None"
    if ret_form and rk in RET_DEBUGGABLE:
        can_disp = (rk in RET_DISPLAYABLE) or (err_form and rk in RET_OK_DISPLAYABLE)
        forms = [("ret", None, "Dbg"), ("ret(Debug)", None, "Dbg"), ('ret(level = "warn")', 4, "Dbg"),
                 ("ret(level = tracing::Level::TRACE)", 1, "Dbg"), ("ret(level = 5, Debug)", 5, "Dbg")]
        if can_disp:
            forms += [("ret(Display)", None, "Disp"), ("ret(level = 2, Display)", 2, "Disp"),
                      ('ret(Display, level = "error")', 5, "Disp")]
        if ret_form == "disp" and can_disp:
            forms = [f for f in forms if f[2] == "Disp"]
        if ret_form == "plain":
            forms = forms[:1]
        txt, lv, mode = rng.choice(forms)
        attr.append(txt)
        ret_exp = f"Some(EvExp {{ level: {lv if lv else level}, mode: Mode::{mode} }})"
        feats["ret"] = txt
    if err_form and rk in RET_RESULT:
        forms = [("err", None, "Disp"), ("err(Display)", None, "Disp"), ("err(Debug)", None, "Dbg"),
                 ('err(level = "info")', 3, "Disp"), ("err(level = 4, Debug)", 4, "Dbg"),
                 ("err(Debug, level = Level::DEBUG)", 2, "Dbg")]
        txt, lv, mode = rng.choice(forms)
        # ret and err order is free
        if rng.random() < 0.5:
            attr.append(txt)
        else:
            attr.insert(0, txt)
        err_exp = f"Some(EvExp {{ level: {lv if lv else 5}, mode: Mode::{mode} }})"
        feats["err"] = txt
    # order of the attribute arguments: a uniformly random permutation (separate stream, so the rest of the
    # corpus does not depend on it) among those the pinned attr.rs accepts -- it rejects `parent = ..` and
    # `follows_from = ..` once a `target = ..` has been seen, so target stays behind those two
    rng3 = random.Random(N * 999983 + 777 + CK * 131)
    def order_ok(a):
        t = [i for i, x in enumerate(a) if x.startswith("target =")]
        pf = [i for i, x in enumerate(a) if x.startswith("parent =") or x.startswith("follows_from =")]
        return not t or not pf or t[0] > max(pf)
    while True:
        rng3.shuffle(attr)
        if order_ok(attr):
            break
    pos = {x.split("(")[0].split(" ")[0]: i for i, x in enumerate(attr)}
    if "level" in pos and ("ret" in pos or "err" in pos):
        feats["order"] = ("ret<level" if pos.get("ret", 99) < pos["level"] else "") + ("err<level" if pos.get("err", 99) < pos["level"] else "") or "level-first"
    attr_txt = ", ".join(attr)

    # ---------------- body
    body = []
    live_views = [b for b in binds if b.view is not None]
    no_early = rk in ("impl_fn", "impl_iter")
    bfeats = set()
    kctr = [10]

    def K():
        kctr[0] += 1
        return kctr[0]

    def V():
        if live_views and rng.random() < 0.9:
            return rng.choice(live_views).view
        return str(rng.choice([0, 1, 2, 5, 9])) + "i64"

    ref_str_param = None
    for p in params:
        if p.kind == "ref_str":
            ref_str_param = p.binds[0].name
            break

    def retexpr():
        v = V()
        if rk == "unit":
            return ""
        if rk == "i64":
            return f"{v} + {rng.choice([0, 1, 7, 100])}"
        if rk == "string":
            return f'format!("s{{}}\\"q", {v})'
        if rk in ("wrap", "impl_tr_dbg", "impl_disp"):
            return f"Wrap({v})"
        if rk == "opt":
            return f"if {v} % 2 == 0 {{ Some({v}) }} else {{ None }}"
        if rk == "tuple":
            return f'({v}, format!("t{{}}", {v}))'
        if rk == "res_i64":
            return rng.choice([f"Ok({v} + 1)", f"if {v} % 3 == 0 {{ Err(MyErr {{ code: {v} }}) }} else {{ Ok({v}) }}",
                               f"Err(MyErr {{ code: {v} }})"][:2 + (rng.random() < 0.3)])
        if rk == "res_unit":
            return rng.choice(["Ok(())", f"if {v} % 3 == 1 {{ Err(MyErr {{ code: {v} }}) }} else {{ Ok(()) }}"])
        if rk == "res_string":
            return rng.choice([f'Ok(format!("o{{}} k", {v}))',
                               f'if {v} % 4 == 0 {{ Err(MyErr {{ code: {v} }}) }} else {{ Ok(format!("o{{}}", {v})) }}'])
        if rk == "impl_fn":
            return f"{{ let c = {v}; move |z: i64| z + c }}"
        if rk == "impl_iter":
            return f"{{ let c = {v}; (0..(c.rem_euclid(4))).map(move |z| z * 2 + c) }}"
        if rk == "ref_str":
            return rng.choice([ref_str_param, '"static str"'])
        raise Exception(rk)

    nst = rng.choice([2, 3, 3, 4, 5, 6, 7])
    has_probe = False
    for _ in range(nst):
        opts = ["fx", "fxv", "fxv", "probe", "local", "bodyev"]
        muts = [(p, t) for p in params for t in p.mut_stmts]
        if recv == "&mut self":
            muts.append((None, "self.k += {v};"))
        if muts:
            opts += ["mutate", "mutate"]
        if not no_early:
            opts += ["early"]
        if rk in RET_RESULT:
            opts += ["q", "q"]
        opts += ["panic"] if rng.random() < 0.5 else []
        if any(b.droppable for b in live_views):
            opts += ["droparg"]
        if is_async:
            opts += ["await", "await", "await"]
        if "late" in empty:
            opts += ["reclate"]
        opts += ["block"]
        o = rng.choice(opts)
        if o == "fx":
            body.append(f"fx({K()});")
        elif o == "fxv":
            body.append(f"fx_v({K()}, {V()});")
        elif o == "probe":
            body.append(f"probe({K()});")
            has_probe = True
        elif o == "local":
            k = K()
            body.append(f"let _l{k} = Sent::local({k});")
            bfeats.add("local")
        elif o == "bodyev":
            body.append(f"body_event({K()});")
            bfeats.add("bodyev")
        elif o == "mutate":
            _, t = rng.choice(muts)
            body.append(t.replace("{v}", V()))
            bfeats.add("mutate")
        elif o == "early":
            m = rng.choice([4, 5, 6, 7])
            # half of the early exits leave through a macro whose expansion returns (bail!-style):
            # no `return` token in the function body itself.  Decided from N and the statement
            # count only.
            via_macro = (int(N) * 69069 + len(body)) % 2 == 0
            if via_macro:
                body.append(f"if {V()} % {m} == {rng.randrange(m)} {{ fx({K()}); bail_with!({retexpr()}); }}")
                bfeats.add("early_via_macro")
            else:
                body.append(f"if {V()} % {m} == {rng.randrange(m)} {{ fx({K()}); return {retexpr()}; }}")
                bfeats.add("early")
        elif o == "q":
            k = K()
            body.append(f"let q{k} = may_fail({k}, {V()})?;")
            live_views.append(Bind(f"q{k}", f"q{k}", None, None))
            bfeats.add("try")
        elif o == "panic":
            m = rng.choice([6, 7, 9, 11])
            k = K()
            form = rng.choice(["fmt", "static", "any"])
            v = V()
            pe = {"fmt": f'panic!("boom{k}-{{}}", {v})', "static": f'panic!("static boom {k}")',
                  "any": f"std::panic::panic_any(Pay({v}))"}[form]
            body.append(f"if {v} % {m} == {rng.randrange(m)} {{ {pe}; }}")
            bfeats.add("panic_" + form)
        elif o == "droparg":
            t = rng.choice([b for b in live_views if b.droppable])
            body.append(f"drop({t.name});")
            live_views = [b for b in live_views if b is not t]
            bfeats.add("droparg")
        elif o == "await":
            body.append(f"yield_n({K()}, {V()}).await;")
            bfeats.add("await")
        elif o == "reclate":
            body.append(f"rec_late({V()});")
            bfeats.add("reclate")
        elif o == "block":
            k = K()
            body.append(f"{{ let _b{k} = Sent::local({k}); fx_v({K()}, {V()}); }}")
            bfeats.add("block")
    if not has_probe:
        body.insert(rng.randrange(len(body) + 1) if not any(s.startswith("drop(") for s in body) else len(body), f"probe({K()});")
    body.append(f"fx({K()});")
    tail = retexpr()
    body_txt = "\n        ".join(body + ([tail] if tail else []))

    # ---------------- assemble the functions
    generics = []
    if need_lt:
        generics.append("'a")
    for p in params:
        generics.extend(p.generics)
    gtxt = f"<{', '.join(generics)}>" if generics else ""
    ret_ty = RET_TYPES[rk]
    plist = []
    if recv:
        plist.append({"&self": f"&{lt}self", "&mut self": f"&{lt}mut self", "self": "self"}[recv])
    for p in params:
        plist.append(f"{p.pat}: {p.ty}")
    ptxt = ", ".join(plist)
    pre = []
    if kind in ("boxed", "impl_fut") and rng.random() < 0.5:
        pre = [f"pre_fx({K()});"]
        bfeats.add("pre")
    pre_txt = " ".join(pre)

    # spelling of the path of the boxed tail call (derived from the twin number only, so the rest
    # of the corpus does not depend on it)
    box_pin = ["Box::pin", "std::boxed::Box::pin", "::std::boxed::Box::pin", "Box::pin", "std::boxed::Box::<_>::pin"][(int(N) * 2654435761 >> 7) % 5] if kind == "boxed" and not ret_form and not err_form else "Box::pin"
    # (twins with ret/err keep the short spelling: if a changed macro stopped recognising a long
    # one, those twins would stop compiling and the check could only report a build failure)
    # a third of the boxed twins without receiver whose parameters are plain identifiers use the
    # inner-async-fn shape
    inner_fn = (kind == "boxed" and not recv and all(p.decl_name and p.pat in (p.decl_name, "mut " + p.decl_name) for p in params)
                and (int(N) * 40503 >> 3) % 3 == 0) or inner_recv
    if inner_fn:
        box_pin = "Box::pin"
        bfeats.add("boxed_inner_async_fn" + ("(_self)" if inner_recv else ""))
    if kind == "boxed":
        bfeats.add("boxpin:" + box_pin)

    def fn_text(name, with_attr, in_trait_impl=False):
        a = f"    #[tracing::instrument({attr_txt})]\n" if with_attr else ""
        allow = "    #[allow(unused_mut, unused_variables, unreachable_code, clippy::all)]\n"
        vis = "" if in_trait_impl else "pub "
        if kind == "sync":
            return f"{allow}{a}    {vis}fn {name}{gtxt}({ptxt}) -> {ret_ty} {{\n        {body_txt}\n    }}\n"
        if kind in ("async_fn", "async_trait"):
            return f"{allow}{a}    {vis}async fn {name}{gtxt}({ptxt}) -> {ret_ty} {{\n        {body_txt}\n    }}\n"
        if kind == "boxed" and inner_fn:
            # the shape older async-trait versions expanded to (and a common hand-written way to
            # get an object-safe async method): an inner `async fn` called inside Box::pin
            s = " + Send" if send else ""
            iargs = ", ".join((["self"] if inner_recv else []) + [p.decl_name for p in params])
            iptxt, ibody = ptxt, body_txt
            if inner_recv:
                iptxt = ", ".join([f"_self: &{lt}{'mut ' if recv == '&mut self' else ''}Obj"] + plist[1:])
                ibody = re.sub(r"\bself\b", "_self", body_txt)
            return (f"{allow}{a}    {vis}fn {name}{gtxt}({ptxt}) -> Pin<Box<dyn Future<Output = {ret_ty}>{s} + 'a>> {{\n"
                    f"        {allow}        async fn {name}_inner{gtxt}({iptxt}) -> {ret_ty} {{\n        {ibody}\n        }}\n"
                    f"        {pre_txt}\n        Box::pin({name}_inner({iargs}))\n    }}\n")
        if kind == "boxed":
            s = " + Send" if send else ""
            return (f"{allow}{a}    {vis}fn {name}{gtxt}({ptxt}) -> Pin<Box<dyn Future<Output = {ret_ty}>{s} + 'a>> {{\n"
                    f"        {pre_txt}\n        {box_pin}(async move {{\n        {body_txt}\n        }})\n    }}\n")
        if kind == "impl_fut":
            return (f"{allow}{a}    {vis}fn {name}{gtxt}({ptxt}) -> impl Future<Output = {ret_ty}> + 'a {{\n"
                    f"        {pre_txt}\n        async move {{\n        {body_txt}\n        }}\n    }}\n")
        raise Exception(kind)

    code = [f"// ---- twin {N}: {kind}; attr = ({attr_txt})"]
    fp, fi = f"f_{CK}_{N}_plain", f"f_{CK}_{N}_inst"
    if kind == "async_trait":
        at = "#[async_trait::async_trait]" if send else "#[async_trait::async_trait(?Send)]"
        decl = []
        if recv:
            decl.append({"&self": "&self", "&mut self": "&mut self", "self": "self"}[recv])
        for p in params:
            decl.append(f"{p.decl_name}: {p.ty}")
        dtxt = ", ".join(decl)
        code.append(f"{at}\npub trait T_{N} {{\n    async fn {fp}({dtxt}) -> {ret_ty};\n    async fn {fi}({dtxt}) -> {ret_ty};\n}}")
        code.append(f"{at}\nimpl T_{N} for Obj {{\n{fn_text(fp, False, True)}{fn_text(fi, True, True)}}}")
    elif recv:
        code.append(f"impl Obj {{\n{fn_text(fp, False)}{fn_text(fi, True)}}}")
    else:
        code.append(fn_text(fp, False).replace("\n    ", "\n").lstrip() if False else fn_text(fp, False) + fn_text(fi, True))

    # ---------------- run fn
    stores = list(recv_store)
    for p in params:
        stores.extend(p.store)
    args = ", ".join(p.call for p in params)

    def call(name, awaited=True):
        c = f"o.{name}({args})" if recv else f"{name}({args})"
        return c + (".await" if is_async and awaited else "")

    posts = []
    if recv_post:
        posts.append(recv_post)
    for p in params:
        if p.post:
            posts.append(f"&{p.post}")
    post_txt = f'format!("{{:?}}", ({", ".join(posts)},))' if posts else "String::new()"

    if rk == "unit":
        render = 'out.ret = "R:()".into(); out.rr.whole_dbg = Some("()".into()); let _ = r;'
    elif rk in RET_DISPLAYABLE:
        render = ('out.ret = format!("R:{:?}", r); out.rr.whole_dbg = Some(format!("{:?}", r)); '
                  'out.rr.whole_disp = Some(format!("{}", r));')
    elif rk in ("opt", "tuple"):
        render = 'out.ret = format!("R:{:?}", r); out.rr.whole_dbg = Some(format!("{:?}", r));'
    elif rk in RET_RESULT:
        disp = 'Some(format!("{}", x))' if rk in RET_OK_DISPLAYABLE else "None"
        render = ('out.ret = format!("R:{:?}", r); out.rr.is_result = true; out.rr.whole_dbg = Some(format!("{:?}", r)); '
                  f'match &r {{ Ok(x) => out.rr.ok = Some((Some(format!("{{:?}}", x)), {disp})), '
                  'Err(e) => out.rr.err = Some((format!("{:?}", e), format!("{}", e))) }')
    elif rk == "impl_tr_dbg":
        render = 'out.ret = format!("R:{:?}/{}", r, r.val()); out.rr.whole_dbg = Some(format!("{:?}", r));'
    elif rk == "impl_fn":
        render = 'out.ret = format!("R:fn:{}", r(5));'
    elif rk == "impl_iter":
        render = 'out.ret = format!("R:{:?}", r.collect::<Vec<i64>>());'
    elif rk == "impl_disp":
        render = 'out.ret = format!("R:{}", r);'
    else:
        raise Exception(rk)

    st = "\n    ".join(stores)
    if not is_async and (rk.startswith("impl_") or rk == "ref_str"):
        # opaque return types of the two twins do not unify: render inside each branch (rendering logs nothing)
        code.append(f"""#[allow(unused_mut, unused_variables)]
fn run_{N}(inst: bool, inp: &Inp, cx: &Cx) -> Out1 {{
    {st}
    log(Ev::CallStart);
    let r = std::panic::catch_unwind(std::panic::AssertUnwindSafe(|| if inst {{
        let r = {call(fi)}; let mut out = Out1::default(); {render} out
    }} else {{
        let r = {call(fp)}; let mut out = Out1::default(); {render} out
    }}));
    log(Ev::CallEnd);
    let mut out = match r {{
        Ok(o) => o,
        Err(p) => Out1 {{ ret: payload(&*p), ..Out1::default() }},
    }};
    out.post = {post_txt};
    out
}}""")
    elif not is_async:
        code.append(f"""#[allow(unused_mut, unused_variables)]
fn run_{N}(inst: bool, inp: &Inp, cx: &Cx) -> Out1 {{
    {st}
    let mut out = Out1::default();
    log(Ev::CallStart);
    let r = std::panic::catch_unwind(std::panic::AssertUnwindSafe(|| if inst {{ {call(fi)} }} else {{ {call(fp)} }}));
    log(Ev::CallEnd);
    match r {{
        Ok(r) => {{ {render} }}
        Err(p) => out.ret = payload(&*p),
    }}
    out.post = {post_txt};
    out
}}""")
    else:
        code.append(f"""#[allow(unused_mut, unused_variables)]
fn run_{N}(inst: bool, inp: &Inp, cx: Rc<Cx>) -> Pin<Box<dyn Future<Output = Out1>>> {{
    let inp = inp.clone();
    Box::pin(async move {{
        let inp = &inp;
        let cx: &Cx = &cx;
        {st}
        let mut out = Out1::default();
        let r = if inst {{ let __fut = {call(fi, False)}; log(Ev::FutMade); __fut.await }} else {{ let __fut = {call(fp, False)}; log(Ev::FutMade); __fut.await }};
        {render}
        out.post = {post_txt};
        out
    }})
}}""")

    # ---------------- expectation fn
    exps = []
    for b in binds:
        if b.name in skips or b.name in overridden or b.exp is None:
            continue
        # (only the AUTOMATIC field of a parameter is compared across spellings)
        exps.append(b.exp + (f".spelled({b.spelled})" if b.spelled else ""))
    for (_, e, _) in custom:
        if e:
            exps.append(e)
    code.append(f"""#[allow(unused_variables)]
fn exp_{N}(inp: &Inp, cx: &Cx) -> Exp {{
    Exp {{ fields: vec![{", ".join(exps)}], empty: vec![{", ".join('"%s"' % e for e in empty)}] }}
}}""")

    # ---------------- descriptor
    feats["kind"] = kind + ("+send" if send else "")
    feats["recv"] = recv or "-"
    feats["params"] = ",".join(sorted(set(kinds)))
    feats["ret_kind"] = rk
    feats["body"] = ",".join(sorted(bfeats))
    shape = "|".join(f"{k}={feats[k]}" for k in sorted(feats))
    esc = attr_txt.replace("\\", "\\\\").replace('"', '\\"')
    shape_esc = shape.replace("\\", "\\\\").replace('"', '\\"')
    desc = (f'Desc {{ id: {N}, kind: "{kind}", shape: "{shape_esc}", attr: "{esc}", '
            f'span_name: {span_name if span_name else chr(34) + fi + chr(34)}, level: {level}, target: {target}, '
            f'parent: ParExp::{par_exp}, follows: {follows}, ret: {ret_exp}, err: {err_exp}, '
            f'field_evals: &[{", ".join(str(k) for k in field_evals)}], '
            f'run: Run::{"Async" if is_async else "Sync"}(run_{N}), exp: exp_{N} }}')
    return "\n".join(code), desc


def gen_corpus(k, seed, n):
    SPELL[0] = k
    rng = random.Random(seed * 7919 + 17)
    out = [f"// GENERATED by /verif/harness/gen/c17.py (corpus {k}, seed {seed}, {n} twins) -- do not edit by hand.",
           "#![allow(non_camel_case_types, clippy::all, unused_imports, dead_code, unused_parens, unused_braces, unused_assignments)]",
           "use super::rt::*;", "use std::future::Future;", "use std::pin::Pin;", "use std::rc::Rc;",
           "use tracing::Level;",
           "macro_rules! bail_with { () => { return }; ($e:expr) => { return $e }; }", ""]
    descs = []
    for N in range(n):
        code, desc = gen_twin(rng, N, k)
        out.append(code)
        out.append("")
        descs.append(desc)
    out.append("pub fn descs() -> Vec<Desc> {\n    vec![\n        " + ",\n        ".join(descs) + ",\n    ]\n}")
    return "\n".join(out) + "\n"


CORPORA = [(0, 0, 260), (1, 101, 220), (2, 102, 220), (3, 103, 220)]

if __name__ == "__main__":
    here = os.path.dirname(os.path.abspath(__file__))
    if len(sys.argv) >= 2 and sys.argv[1] == "--all":
        for (k, seed, n) in CORPORA:
            p = os.path.join(here, "..", "checks", "src", "gen_c17", f"corpus_{k}.rs")
            with open(p, "w") as f:
                f.write(gen_corpus(k, seed, n))
            print("wrote", os.path.normpath(p))
    else:
        k, seed, n = int(sys.argv[1]), int(sys.argv[2]), int(sys.argv[3])
        sys.stdout.write(gen_corpus(k, seed, n))
