#!/usr/bin/env python3
"""Generator of the C14 macro corpus (python3, stdlib only).

Writes /verif/harness/checks/src/gen_c14/sites.rs: ~170 call sites of the REAL tracing macros
(`span!`, `info_span!`..., `event!`, `info!`...) whose field names, span names and targets are
adversarial compile-time strings (string-literal names, `{CONST}` names, raw identifiers,
dotted identifiers, shorthand `?x` / `%x` / `x`), each taking its field VALUES at run time
through `&[Arg]`.  Every site is one line, so that the `line!()` it returns is the line the
macro stored in its metadata.

Re-run:  python3 /verif/harness/gen/gen_c14.py   (deterministic; output is committed)
"""
import os
import random

OUT = os.path.join(os.path.dirname(os.path.abspath(__file__)), "..", "checks", "src", "gen_c14", "sites.rs")
R = random.Random(14)

# names the JSON formatter uses itself (json.rs format_event / SerializableSpan) -- excluded,
# as the property says; plus `log.`-prefixed names (skipped by the formatter when the
# tracing-log feature is on) and `message` (the macros' own implicit field).
RESERVED = {"timestamp", "level", "fields", "target", "filename", "line_number", "span", "spans",
            "threadName", "threadId", "name", "field", "field_error", "message"}


def rust_lit(s):
    out = ['"']
    for ch in s:
        o = ord(ch)
        if ch == '"':
            out.append('\\"')
        elif ch == '\\':
            out.append('\\\\')
        elif 0x20 <= o < 0x7F:
            out.append(ch)
        else:
            out.append('\\u{%x}' % o)
    out.append('"')
    return ''.join(out)


# (kind, text)  kind: lit = string literal name, id = identifier path (text is the Rust tokens),
# const = `{ CONST }` name (text is the value of the constant)
LIT_NAMES = [
    'quo"te', 'back\\slash', 'uni\u2028sep', 'para\u2029sep', 'tab\there', 'new\nline', 'cr\rret',
    'nul\0byte', 'bell\x07', 'esc\x1b[0m', 'del\x7f', 'bom\ufeffx', 'comb\u0301e', 'astral\U0001F600',
    '\U00010000', 'sp ace', ' lead', 'trail ', '', 'dotted.lit.name', '{brace}', 'a:b', 'a=b',
    '\u043a\u043b\u044e\u0447', '\u9375', '\u200b', "'single'", '/slash', '\\u0041', '"', '\\',
    'r#lit', 'type', '%pct', '?q', 'null', 'true', '1', '-0', '__proto__', '\u0080', '\ud7ff',
    '\ue000', '\uffff', '\U0010FFFF', '\x01', '\x1f', 'ff\x0c', 'bs\x08', '\\"', '"\\', 'a"b"c',
    '\\n', 'x\\', 'k\x00\x01\x02', ' ', '\u00e9\u0301', '\U0001F468\u200d\U0001F469',
    'UPPER', 'with,comma', 'with}close', '[arr]', '\\\\', '""',
]
ID_NAMES = [
    'foo', 'bar_baz', 'x1', '_lead', 'CamelCase', 'r#type', 'r#fn', 'r#match', 'r#struct', 'a.b',
    'a.b.c', 'http.status_code', 'user.r#type', 'r#mod.r#use', 'n', 'answer', 'very_long_identifier_name_with_many_parts',
]
CONST_NAMES = ['const"name', 'const\\name', 'const\tname', 'const.plain', 'const name', 'r#constraw']
# shorthand local-variable names (the field name is the variable's name)
SHORT_NAMES = ['quux', 'zed', 'plain_local', 'r#loop', 'r#ref']

SPAN_NAMES = [
    'plain_span', 'na"me', 'back\\name', 'span\nnewline', 'span\ttab', 'sp an', '', 'uni\u2028span',
    '\U0001F600span', 'nul\0span', 'r#raw', 'a.b.c', '{x}', '"', '\\', 'del\x7fspan', '\ufeffbom',
    '\u00e9', '\x1bspan', 'name',
]
TARGETS = [
    None, None, None, 'plain::target', 'tar"get', 'tar\\get', 'tar\nget', 'tar get', '',
    'tar\u2029get', '\U0001F600::t', 'nul\0t', 'tab\tt', 'a,b=c', '"', '\\\\', 'del\x7f',
]
MSG_PREFIXES = ['', 'plain ', 'q"uo ', 'b\\s ', 'n\nl ', 'u\u2028 ', '{{braces}} ', '\U0001F600 ', 'c\x01 ', 't\t']
LEVELS = ['ERROR', 'WARN', 'INFO', 'DEBUG', 'TRACE']
LEVEL_MACRO = {'ERROR': 'error', 'WARN': 'warn', 'INFO': 'info', 'DEBUG': 'debug', 'TRACE': 'trace'}


def field_name_text(kind, text):
    """the field name as tracing will see it"""
    if kind == 'id' or kind == 'short':
        return text.replace(' ', '')
    return text


def strip(n):
    return n[2:] if n.startswith('r#') else n


def ok_name(n):
    return n not in RESERVED and strip(n) not in RESERVED and not n.startswith('log.') and not strip(n).startswith('log.')


def pick_fields(nmax, allow_short):
    n = R.randint(0, nmax)
    chosen = []
    seen = set()
    tries = 0
    while len(chosen) < n and tries < 100:
        tries += 1
        r = R.random()
        if r < 0.55:
            kind, text = 'lit', R.choice(LIT_NAMES)
        elif r < 0.80:
            kind, text = 'id', R.choice(ID_NAMES)
        elif r < 0.90:
            kind, text = 'const', R.choice(CONST_NAMES)
        elif allow_short:
            kind, text = 'short', R.choice(SHORT_NAMES)
        else:
            continue
        name = field_name_text(kind, text)
        if not ok_name(name) or strip(name) in seen or name in seen:
            continue
        seen.add(name)
        seen.add(strip(name))
        slot = R.choice(['P', 'P', 'P', 'D', 'G'])
        chosen.append((kind, text, name, slot))
    return chosen


consts = {}


def const_ident(value):
    if value not in consts:
        consts[value] = 'K%d' % len(consts)
    return consts[value]


def field_tokens(i, kind, text, slot):
    """returns (prelude statement or '', macro tokens)"""
    acc = {'P': 'a[%d].v()' % i, 'D': 'a[%d].d()' % i, 'G': 'a[%d].g()' % i}[slot]
    sig = {'P': '', 'D': '%', 'G': '?'}[slot]
    if kind == 'lit':
        return '', '%s = %s%s' % (rust_lit(text), sig, acc)
    if kind == 'id':
        return '', '%s = %s%s' % (text, sig, acc)
    if kind == 'const':
        return '', '{ %s } = %s%s' % (const_ident(text), sig, acc)
    # shorthand: local variable named like the field
    return 'let %s = %s; ' % (text, acc), '%s%s' % (sig, text)


sites = []   # table entries
fns = []     # function lines


def gen_span(idx):
    fields = pick_fields(7, True)
    name = R.choice(SPAN_NAMES)
    target = R.choice(TARGETS)
    level = R.choice(LEVELS)
    pre, toks = [], []
    for i, (kind, text, _n, slot) in enumerate(fields):
        p, t = field_tokens(i, kind, text, slot)
        pre.append(p)
        toks.append(t)
    tgt = '' if target is None else 'target: %s, ' % rust_lit(target)
    if R.random() < 0.5:
        call = 'tracing::span!(%stracing::Level::%s, %s%s)' % (tgt, level, rust_lit(name), ''.join(', ' + t for t in toks))
    else:
        call = 'tracing::%s_span!(%s%s%s)' % (LEVEL_MACRO[level], tgt, rust_lit(name), ''.join(', ' + t for t in toks))
    fn = 's%d' % idx
    fns.append('fn %s(a: &[Arg<\'_>]) -> Ret { %slet s = %s; Ret::Span(s, line!()) }' % (fn, ''.join(pre), call))
    add_site(True, name, target, level, fields, None, fn)


def gen_event(idx):
    with_msg = R.random() < 0.45
    fields = pick_fields(6, True)
    if not fields and not with_msg:
        with_msg = True
    target = R.choice(TARGETS)
    level = R.choice(LEVELS)
    pre, toks = [], []
    for i, (kind, text, _n, slot) in enumerate(fields):
        p, t = field_tokens(i, kind, text, slot)
        pre.append(p)
        toks.append(t)
    msg = None
    if with_msg:
        msg = R.choice(MSG_PREFIXES)
        toks.append('%s, a[%d].d()' % (rust_lit(msg + '{}'), len(fields)))
    tgt = '' if target is None else 'target: %s, ' % rust_lit(target)
    # (the level macros accept `target:` only in front of an identifier-named first field or a
    # format string -- a compile-time limitation, outside this property; use event! there)
    if target is not None or R.random() < 0.5:
        call = 'tracing::event!(%stracing::Level::%s, %s)' % (tgt, level, ', '.join(toks))
    else:
        call = 'tracing::%s!(%s%s)' % (LEVEL_MACRO[level], tgt, ', '.join(toks))
    fn = 'e%d' % idx
    fns.append('fn %s(a: &[Arg<\'_>]) -> Ret { %s%s; Ret::Event(line!()) }' % (fn, ''.join(pre), call))
    # the prefix as the formatter will see it: `{{` `}}` are format-string escapes
    seen = None if msg is None else msg.replace('{{', '{').replace('}}', '}')
    add_site(False, 'event', target, level, fields, seen, fn)


def add_site(is_span, name, target, level, fields, msg, fn):
    fl = ', '.join('(%s, Slot::%s)' % (rust_lit(n), s) for (_k, _t, n, s) in fields)
    sites.append('    MSite { is_span: %s, name: %s, target: %s, level: %d, fields: &[%s], msg: %s, file: file!(), call: %s },' % (
        'true' if is_span else 'false', rust_lit(name),
        'module_path!()' if target is None else rust_lit(target),
        LEVELS.index(level) + 1, fl,
        'None' if msg is None else 'Some(%s)' % rust_lit(msg), fn))


for i in range(70):
    gen_span(i)
for i in range(100):
    gen_event(i)

with open(OUT, 'w', encoding='utf-8') as f:
    f.write('// @generated by /verif/harness/gen/gen_c14.py -- do not edit (C14 macro corpus)\n')
    f.write('// Every site is ONE line: the `line!()` it returns is the line stored in the callsite metadata.\n')
    f.write('#![allow(non_snake_case, unused_variables, clippy::all)]\n')
    f.write('#[rustfmt::skip]\nmod inner {\n')
    f.write('use crate::{Arg, MSite, Ret, Slot};\n\n')
    for v, k in sorted(consts.items(), key=lambda kv: int(kv[1][1:])):
        f.write('const %s: &str = %s;\n' % (k, rust_lit(v)))
    f.write('\n')
    for l in fns:
        f.write(l + '\n')
    f.write('\npub static SITES: &[MSite] = &[\n')
    for s in sites:
        f.write(s + '\n')
    f.write('];\n}\npub use inner::SITES;\n')
print('wrote', os.path.normpath(OUT), len(sites), 'sites')
