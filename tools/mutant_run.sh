#!/bin/bash
# tools/mutant_run.sh <patch.diff> <ID> [tier]  — apply a patch to /repo, run the check, undo.
# Prints the check's last lines and "MUTANT-RESULT <patch> <ID> exit=<n>".
set -u
P=$(realpath "$1"); ID=$2; TIER=${3:-quick}
cd /repo || exit 2
if [ -n "$(git status --porcelain --untracked-files=no)" ]; then echo "/repo not clean" >&2; exit 2; fi
if ! git apply "$P"; then echo "patch does not apply: $P" >&2; exit 2; fi
/verif/check "$ID" "$TIER" > /tmp/mutant_out.$$ 2>&1; rc=$?
git checkout -- . 
grep -E "^(VIOLATION|KNOWN-FINDING|HELD|TOO-LITTLE|HARNESS|OBSERVED)" /tmp/mutant_out.$$ | cut -c1-300 | head -8
echo "MUTANT-RESULT $(basename "$P") $ID exit=$rc"
rm -f /tmp/mutant_out.$$
