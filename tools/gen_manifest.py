#!/usr/bin/env python3
"""Regenerates /verif/MANIFEST.json from the table below (single source of truth)."""
import json, os, subprocess
ROOT = os.path.dirname(os.path.dirname(os.path.abspath(__file__)))

# id -> {technique, text, note, ref}; edit tools/checks_table.json
CHECKS = json.load(open(os.path.join(ROOT, "tools", "checks_table.json")))
NOT_YET = {}

def hooks_commits():
    try:
        out = subprocess.check_output(["git", "-C", "/repo", "log", "--format=%H %s"], text=True)
        return [l.split()[0] for l in out.splitlines() if " verif-hooks:" in l][::-1]
    except Exception:
        return []

props = [json.loads(l) for l in open(os.path.join(ROOT, "properties.jsonl"))]
checks = []
na = []
for p in props:
    pid = p["id"]
    if pid in CHECKS:
        c = CHECKS[pid]; tech, text, note, ref = c["technique"], c["text"], c["note"], c["ref"]
        checks.append({
            "property_id": pid,
            "quick_cmd": f"./check {pid} quick",
            "thorough_cmd": f"./check {pid} thorough",
            "evidence_file": f"/verif/evidence/{pid}.json",
            "replay_cmd_template": f"./check {pid} --replay {{path}}",
            "engine": "harness",
            "level_claimed": {"category": "exploration", "text": text, "design_ref": ref},
            "level_note": note,
            "technique": tech,
        })
    else:
        na.append({"property_id": pid, "reason": NOT_YET.get(pid, "check not built yet in this revision of /verif (runtime monitoring applies; see DESIGN.md section 5); not claimed until its monitor exists and is silent on the unchanged tree")})

m = {
 "version": 1,
 "setup_cmd": "./setup.sh",
 "hooks": {
   "guard": "cargo feature `verif-hooks` (tracing-core, tracing, tracing-subscriber, tracing-appender); off by default",
   "enable": "the harness crates under /verif/harness depend on /repo's crates by path with features = [\"verif-hooks\"]; every ./check run does `cargo build --offline` against /repo's working tree",
   "baseline_off_cmd": "cd /repo && cargo nextest run --workspace --no-fail-fast --tool-config-file pb:/w/lib/nextest.toml --profile pb --test-threads 8 --offline",
   "source_commits": hooks_commits(),
   "add_only": True,
 },
 "engines": [
   {"name": "harness", "path": "/verif/harness", "serves_properties": sorted(CHECKS.keys()),
    "kind_free_text": "cargo workspace: vlib (rng, orchestration of child processes, evidence, known-findings matcher, chaos injector behind the verif hooks, recorders, reference models), vcs (pool of static macro callsites), checks (one monitor binary per property)"},
 ],
 "checks": checks,
 "not_applicable": na,
 "notes": "Runtime monitoring and sanitizers only. ./check <ID> quick|thorough|--replay <file>. exit 0 held / 1 VIOLATION / 2 observed too little or harness failure. Known findings: /verif/known_findings.json.",
}
json.dump(m, open(os.path.join(ROOT, "MANIFEST.json"), "w"), indent=1)
print("wrote MANIFEST.json:", len(checks), "checks,", len(na), "not_applicable")
