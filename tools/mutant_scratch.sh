#!/bin/bash
# tools/mutant_scratch.sh <patch.diff> <ID> [tier] [extra args...]
# Same as mutant_run.sh but without touching /repo: uses a scratch git worktree of /repo under
# /tmp/wt-main and a copy of the harness sources under /tmp/h-main whose path dependencies point
# at the worktree.  Evidence goes to /tmp/h-main/evidence.  Cleanup: tools/mutant_scratch.sh --clean
set -u
WT=/tmp/wt-main; H=/tmp/h-main
if [ "${1:-}" = "--clean" ]; then
  git -C /repo worktree remove --force $WT 2>/dev/null; rm -rf $H $WT; git -C /repo worktree prune; exit 0
fi
P=$(realpath "$1"); ID=$2; TIER=${3:-quick}; shift; shift; [ $# -gt 0 ] && shift
bin=$(echo "$ID" | tr 'A-Z' 'a-z')
[ -d $WT ] || git -C /repo worktree add -q --detach $WT HEAD || exit 2
git -C $WT checkout -q --detach "$(git -C /repo rev-parse HEAD)" && git -C $WT checkout -q -- . 
mkdir -p $H/evidence
rsync -a --delete --exclude 'target*' /verif/harness/ $H/harness/
cp /verif/known_findings.json $H/
sed -i "s#/repo/#$WT/#g" $(find $H/harness -name Cargo.toml)
if [ "$P" != "/dev/null" ] && ! git -C $WT apply "$P"; then echo "patch does not apply: $P" >&2; exit 2; fi
cd $H/harness
export CARGO_TARGET_DIR=$H/target
if ! cargo build --offline --release -p checks --bin "$bin" > $H/build.log 2>&1; then
  echo "MUTANT-RESULT $(basename "$P") $ID build-failed"; grep -E "^error" -A8 $H/build.log | head -30; git -C $WT checkout -q -- .; exit 2
fi
if [ "$ID" = "C18" ]; then cargo build --offline --release -p c18log >> $H/build.log 2>&1; export VERIF_C18LOG_BIN=$H/target/release/c18log; fi
if [ "$ID" = "C01" ]; then cargo build --offline --release -p c01cap >> $H/build.log 2>&1; export VERIF_C01CAP_BIN=$H/target/release/c01cap; fi
if [ "$ID" = "C01" ]; then cargo build --offline --release -p c01cap2 >> $H/build.log 2>&1; export VERIF_C01CAP2_BIN=$H/target/release/c01cap2; fi
case "$ID" in C05|C06|C07|C08|C09|C11|C12|C13|C14|C16)
  if [ "$TIER" = "thorough" ]; then
    cargo build --offline --profile dbgassert -p checks --bin "$bin" >> $H/build.log 2>&1 && export VERIF_${ID}_DBG_BIN=$H/target/dbgassert/$bin
  fi;;
esac
VERIF_ROOT=$H $H/target/release/$bin "$TIER" "$@" > $H/out.log 2>&1; rc=$?
git -C $WT checkout -q -- .
grep -E "^(VIOLATION|KNOWN-FINDING|HELD|TOO-LITTLE|HARNESS|OBSERVED|INCONCLUSIVE)" $H/out.log | cut -c1-400 | head -8
echo "MUTANT-RESULT $(basename "$P") $ID exit=$rc"
