#!/bin/bash
# tools/seed_verify.sh <seed-dir> <crate> <demo.rs> [feature-args...]  -- "<crates whose existing tests must still pass>"
# Confirms in the scratch worktree /tmp/wt-main that (1) the demo passes without the change,
# (2) fails with it, (3) the existing tests of the listed crates behave as on the unchanged tree.
set -u
SD=$(realpath "$1"); CRATE=$2; DEMO=$3; shift 3
FEAT=(); while [ $# -gt 0 ] && [ "$1" != "--" ]; do FEAT+=("$1"); shift; done; shift || true
CRATES=${1:-$CRATE}
WT=/tmp/wt-main; export CARGO_TARGET_DIR=$WT/target
[ -d $WT ] || git -C /repo worktree add -q --detach $WT HEAD
git -C $WT checkout -q --detach "$(git -C /repo rev-parse HEAD)"; git -C $WT checkout -q -- .; git -C $WT clean -fdq -e target
name=$(basename "$DEMO" .rs)
mkdir -p $WT/$CRATE/tests; cp "$SD/$DEMO" $WT/$CRATE/tests/$name.rs
cd $WT
run_demo() { cargo nextest run -p $CRATE "${FEAT[@]}" --test $name --offline --no-fail-fast 2>&1 | grep -E "Summary|error(\[|:)" | head -3; }
echo "--- demo WITHOUT the change:"; run_demo
git apply "$SD/patch.diff" || { echo "patch does not apply"; exit 2; }
echo "--- demo WITH the change:"; run_demo
rm -f $WT/$CRATE/tests/$name.rs
P=""; for c in $CRATES; do P="$P -p $c"; done
echo "--- existing tests WITH the change ($CRATES):"
cargo nextest run $P --no-fail-fast --tool-config-file pb:/w/lib/nextest.toml --profile pb --test-threads 8 --offline 2>&1 | grep -E "Summary|FAIL \[" | sort -u | head -8
git checkout -q -- .; git clean -fdq -e target
