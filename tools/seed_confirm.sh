#!/bin/bash
# tools/seed_confirm.sh <ID> <seed-dir> "<crates for nextest, space separated>"
# Confirms an independently seeded change in the scratch worktree /tmp/wt-main:
#   applies <seed-dir>/patch.diff on /repo's HEAD, runs the existing tests of the given crates
#   (must be as on the unchanged tree), then runs our check against it (tools/mutant_scratch.sh).
set -u
ID=$1; SD=$(realpath "$2"); CRATES=${3:-}
WT=/tmp/wt-main
[ -d $WT ] || git -C /repo worktree add -q --detach $WT HEAD
git -C $WT checkout -q --detach "$(git -C /repo rev-parse HEAD)" && git -C $WT checkout -q -- . && git -C $WT clean -fdq -e target
if ! git -C $WT apply --check "$SD/patch.diff" 2>/dev/null; then echo "SEED $ID: patch does not apply on current HEAD"; exit 2; fi
git -C $WT apply "$SD/patch.diff"
if [ -n "$CRATES" ]; then
  P=""; for c in $CRATES; do P="$P -p $c"; done
  (cd $WT && CARGO_TARGET_DIR=$WT/target cargo nextest run $P --no-fail-fast --tool-config-file pb:/w/lib/nextest.toml --profile pb --test-threads 8 --offline 2>&1 | grep -E "Summary|FAIL \[" | sort -u | head -12)
fi
git -C $WT checkout -q -- .
/verif/tools/mutant_scratch.sh "$SD/patch.diff" "$ID" quick 2>&1 | tail -4 | cut -c1-400
