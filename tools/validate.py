#!/usr/bin/env python3-vt
import json, jsonschema, sys, glob
m = json.load(open('/verif/MANIFEST.json'))
jsonschema.validate(m, json.load(open('/root/.vp/MANIFEST.schema.json')))
es = json.load(open('/root/.vp/EVIDENCE.schema.json'))
bad = 0
for c in m['checks']:
    try:
        jsonschema.validate(json.load(open(c['evidence_file'])), es)
    except Exception as e:
        bad += 1
        print('EVIDENCE PROBLEM', c['property_id'], str(e)[:200])
print('manifest ok; evidence problems:', bad)
